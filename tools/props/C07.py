"""C07 — the tree is the sorted, partitioned ancestor closure of the occupied leaves."""
import core
import gen
from props import corefam

LEVEL = "proof"


def parse_structure(lines):
    groups = {}
    pgroups = []
    for ln in lines:
        t = ln.split()
        if ln.startswith("S G "):
            lvl = int(t[2])
            groups.setdefault(lvl, []).append({"first": int(t[4]), "last": int(t[5]), "n": int(t[6]), "cells": [int(x) for x in t[8:]]})
        elif ln.startswith("S L "):
            groups.setdefault(int(t[2]), [])
        elif ln.startswith("S P "):
            leaves = []
            for item in t[8:]:
                i, ps = item.split("=")
                leaves.append((int(i), [int(x) for x in ps.split(",")] if ps else []))
            pgroups.append({"first": int(t[3]), "last": int(t[4]), "n": int(t[5]), "np": int(t[6]), "leaves": leaves})
    return groups, pgroups


def invariants(case, lines):
    """the statement of C07 evaluated on a structure dump; returns list of (signature, message)"""
    D, H, bs, mode = case["D"], case["H"], case["bs"], case["mode"]
    groups, pgroups = parse_structure(lines)
    bad = []
    if not case["parts"]:
        return bad
    for lvl in range(H):
        gs = groups.get(lvl, [])
        flat = []
        for g in gs:
            if not g["cells"]:
                bad.append(("C07:empty-group", "empty group at level %d" % lvl))
                continue
            if g["first"] != g["cells"][0] or g["last"] != g["cells"][-1] or g["n"] != len(g["cells"]):
                bad.append(("C07:header", "group header (first/last/count) does not match its content at level %d" % lvl))
            if not mode and len(g["cells"]) > bs:
                bad.append(("C07:size", "group of %d cells exceeds block size %d at level %d" % (len(g["cells"]), bs, lvl)))
            flat += g["cells"]
        if any(a >= b for a, b in zip(flat, flat[1:])):
            bad.append(("C07:order", "cells of level %d are not strictly increasing across groups" % lvl))
        if lvl + 1 < H:
            below = [c for g in groups.get(lvl + 1, []) for c in g["cells"]]
            if sorted(set(c >> D for c in below)) != flat:
                bad.append(("C07:closure", "cells of level %d are not exactly the parents of the cells of level %d" % (lvl, lvl + 1)))
    occupied = sorted(core.shape_of_case(case).keys())
    leafcells = [c for g in groups.get(H - 1, []) for c in g["cells"]]
    if leafcells != occupied:
        bad.append(("C07:leaves", "leaf-level cells are not exactly the occupied leaves"))
    lg = groups.get(H - 1, [])
    if len(lg) != len(pgroups):
        bad.append(("C07:leafgroups", "number of leaf cell groups != number of particle groups"))
    else:
        for g, p in zip(lg, pgroups):
            if g["cells"] != [l[0] for l in p["leaves"]]:
                bad.append(("C07:leafgroups", "leaf cell group and particle group differ cell by cell"))
            if p["first"] != p["leaves"][0][0] or p["last"] != p["leaves"][-1][0] or p["n"] != len(p["leaves"]) or p["np"] != sum(len(l[1]) for l in p["leaves"]):
                bad.append(("C07:pheader", "particle group header does not match its content"))
            if not mode and len(p["leaves"]) > bs:
                bad.append(("C07:size", "particle group exceeds block size"))
    if mode:
        for lvl in range(H - 1):
            if len(groups.get(lvl, [])) > len(groups.get(lvl + 1, [])):
                bad.append(("C07:mode1", "one-group-per-parent: more groups at level %d than below" % lvl))
    return bad


def gen_cases(tier, seed, configs):
    n = 500 if tier == "quick" else 6000
    cases = []
    for k in range(n):
        r = gen.rng(seed, "C07", k)
        D, H, periodic, kind, parts, bs, mode = corefam.random_tree_params(r, configs, max_n=200, big=(tier != "quick"))
        cases.append(corefam.make_case("c07-%d" % k, D, H, periodic, parts, bs, mode, ["dump structure"], {"kind": kind}))
    return cases


def evaluate(res):
    cpp = core.section(res.cpp, "S ")
    lean = core.section(res.lean, "S ")
    corr = []
    if cpp != lean:
        d = [(a, b) for a, b in zip(cpp, lean) if a != b][:2]
        corr.append(("structure", "structure dumps differ: %r" % (d or [("len", len(cpp), len(lean))])))
    orc = invariants(res.case, cpp) + [("C07:X", x) for x in core.section(res.cpp, "X ")]
    return corr, orc


def run(rep, tier, seed, replay, proof_ok, proof_msg):
    corefam.standard_run(rep, tier, seed, replay, proof_ok, proof_msg, gen_cases, evaluate)
    rep.assumptions += ["positions are exact cell centres of the unit box (the float path is tied in C06)",
                        "the order of particles inside a leaf is not compared (std::sort is unstable)"]
