"""C07 — the tree is the sorted, partitioned ancestor closure of the occupied leaves."""
import core
import gen
from props import corefam

LEVEL = "proof"


def parse_structure(lines):
    groups = {}
    pgroups = []
    for ln in lines:
        t = ln.split()
        if ln.startswith("S G "):
            lvl = int(t[2])
            groups.setdefault(lvl, []).append({"first": int(t[4]), "last": int(t[5]), "n": int(t[6]), "cells": [int(x) for x in t[8:]]})
        elif ln.startswith("S L "):
            groups.setdefault(int(t[2]), [])
        elif ln.startswith("S P "):
            leaves = []
            for item in t[8:]:
                i, ps = item.split("=")
                leaves.append((int(i), [int(x) for x in ps.split(",")] if ps else []))
            pgroups.append({"first": int(t[3]), "last": int(t[4]), "n": int(t[5]), "np": int(t[6]), "leaves": leaves})
    return groups, pgroups


def invariants(case, lines):
    """the statement of C07 evaluated on a structure dump; returns list of (signature, message)"""
    D, H, bs, mode = case["D"], case["H"], case["bs"], case["mode"]
    groups, pgroups = parse_structure(lines)
    bad = []
    if not case["parts"]:
        return bad
    for lvl in range(H):
        gs = groups.get(lvl, [])
        flat = []
        for g in gs:
            if not g["cells"]:
                bad.append(("C07:empty-group", "empty group at level %d" % lvl))
                continue
            if g["first"] != g["cells"][0] or g["last"] != g["cells"][-1] or g["n"] != len(g["cells"]):
                bad.append(("C07:header", "group header (first/last/count) does not match its content at level %d" % lvl))
            if not mode and len(g["cells"]) > bs:
                bad.append(("C07:size", "group of %d cells exceeds block size %d at level %d" % (len(g["cells"]), bs, lvl)))
            flat += g["cells"]
        if any(a >= b for a, b in zip(flat, flat[1:])):
            bad.append(("C07:order", "cells of level %d are not strictly increasing across groups" % lvl))
        if lvl + 1 < H:
            below = [c for g in groups.get(lvl + 1, []) for c in g["cells"]]
            if sorted(set(c >> D for c in below)) != flat:
                bad.append(("C07:closure", "cells of level %d are not exactly the parents of the cells of level %d" % (lvl, lvl + 1)))
    occupied = sorted(core.shape_of_case(case).keys())
    leafcells = [c for g in groups.get(H - 1, []) for c in g["cells"]]
    if leafcells != occupied:
        bad.append(("C07:leaves", "leaf-level cells are not exactly the occupied leaves"))
    lg = groups.get(H - 1, [])
    if len(lg) != len(pgroups):
        bad.append(("C07:leafgroups", "number of leaf cell groups != number of particle groups"))
    else:
        for g, p in zip(lg, pgroups):
            if g["cells"] != [l[0] for l in p["leaves"]]:
                bad.append(("C07:leafgroups", "leaf cell group and particle group differ cell by cell"))
            if p["first"] != p["leaves"][0][0] or p["last"] != p["leaves"][-1][0] or p["n"] != len(p["leaves"]) or p["np"] != sum(len(l[1]) for l in p["leaves"]):
                bad.append(("C07:pheader", "particle group header does not match its content"))
            if not mode and len(p["leaves"]) > bs:
                bad.append(("C07:size", "particle group exceeds block size"))
    if mode:
        for lvl in range(H - 1):
            if len(groups.get(lvl, [])) > len(groups.get(lvl + 1, [])):
                bad.append(("C07:mode1", "one-group-per-parent: more groups at level %d than below" % lvl))
    return bad


def gen_cases(tier, seed, configs):
    n = 500 if tier == "quick" else 40000
    cases = []
    for k in range(n):
        r = gen.rng(seed, "C07", k)
        D, H, periodic, kind, parts, bs, mode = corefam.random_tree_params(r, configs, max_n=200, big=(tier != "quick"))
        if k % 5 == 2:
            # the default block size (TbfBlockSizeFinder): the clauses hold for the size the tree reports
            cases.append(corefam.make_case("c07-%d" % k, D, H, periodic, parts, bs, mode, ["build auto=1 threads=HW mode=%d" % mode, "dump structure"], {"kind": kind, "auto": True}))
            continue
        cases.append(corefam.make_case("c07-%d" % k, D, H, periodic, parts, bs, mode, ["dump structure"], {"kind": kind}))
    return cases


def evaluate(res):
    cpp = core.section(res.cpp, "S ")
    lean = core.section(res.lean, "S ")
    corr = []
    if cpp != lean:
        d = [(a, b) for a, b in zip(cpp, lean) if a != b][:2]
        corr.append(("structure", "structure dumps differ: %r" % (d or [("len", len(cpp), len(lean))])))
    case = res.case
    if case["meta"].get("auto"):
        bl, ll = [ln for ln in res.cpp if ln.startswith("B ")], [ln for ln in res.lean if ln.startswith("B ")]
        if bl != ll:
            corr.append(("auto-bs", "automatic block size: library %r, model %r" % (bl, ll)))
        if bl:
            case = dict(case, bs=int(bl[0].split()[1]))
    orc = invariants(case, cpp) + [("C07:X", x) for x in core.section(res.cpp, "X ")]
    return corr, orc


def cell_clauses(D, H, bs, mode, groups, pgroup_leaves, tag):
    """the cell-level clauses of C07 on a dump of the float harness (h_tree): used on built and on rebuilt trees"""
    bad = []
    for lvl in range(H):
        gs = groups.get(lvl, [])
        flat = []
        for g in gs:
            if not g["cells"]:
                bad.append(("C07:empty-group", "%s: empty group at level %d" % (tag, lvl)))
                continue
            if g["first"] != g["cells"][0] or g["last"] != g["cells"][-1] or g["n"] != len(g["cells"]):
                bad.append(("C07:header", "%s: group header (first/last/count) does not match its content at level %d" % (tag, lvl)))
            if not mode and len(g["cells"]) > bs:
                bad.append(("C07:size", "%s: group of %d cells exceeds block size %d at level %d" % (tag, len(g["cells"]), bs, lvl)))
            flat += g["cells"]
        if any(a >= b for a, b in zip(flat, flat[1:])):
            bad.append(("C07:order", "%s: cells of level %d are not strictly increasing across groups" % (tag, lvl)))
        if lvl + 1 < H:
            below = [c for g in groups.get(lvl + 1, []) for c in g["cells"]]
            if sorted(set(c >> D for c in below)) != flat:
                bad.append(("C07:closure", "%s: cells of level %d are not exactly the parents of the cells of level %d" % (tag, lvl, lvl + 1)))
    lg = [g["cells"] for g in groups.get(H - 1, [])]
    if lg != pgroup_leaves:
        bad.append(("C07:leafgroups", "%s: leaf-level cell groups %r differ from the particle groups' leaves %r" % (tag, lg[:4], pgroup_leaves[:4])))
    if not mode and any(len(g) > bs for g in pgroup_leaves):
        bad.append(("C07:size", "%s: particle group exceeds block size" % tag))
    if mode:
        for lvl in range(H - 1):
            if len(groups.get(lvl, [])) > len(groups.get(lvl + 1, [])):
                bad.append(("C07:mode1", "%s: one-group-per-parent: more groups at level %d than below" % (tag, lvl)))
    return bad


def evaluate_history(res):
    """C07 'is preserved by rebuild()': the clauses on the tree as built and after every rebuild of a move history"""
    import ftree
    c = res.case
    D, H, bs, mode = c["D"], c["H"], c["meta"]["bs"], c["meta"]["mode"]
    corr, orc = [], []
    cs, ls = ftree.segments(res.cpp), ftree.segments(res.lean)
    for key, seg in cs.items():
        if not (key == "built" or key.startswith("rebuilt")):
            continue
        a = [ln for ln in seg if ln.startswith("S G ") or ln.startswith("LF ")]
        b = [ln for ln in ls.get(key, []) if ln.startswith("S G ") or ln.startswith("LF ")]
        if a != b:
            corr.append(("structure-history", "%s: structure dumps differ (library, model): %r" % (key, [(x, y) for x, y in zip(a, b) if x != y][:2] or (len(a), len(b)))))
        groups, _ = parse_structure(seg)
        leaves, _ = ftree.parse_leaves(seg, D)
        pg = {}
        for gi, idx, coord, ps in leaves:
            pg.setdefault(gi, []).append(idx)
            if not ps:
                orc.append(("C07:empty-leaf", "%s: leaf %d holds no particle" % (key, idx)))
        orc += cell_clauses(D, H, bs, mode, groups, [pg[k] for k in sorted(pg)], key)
    # both trees of the target/source variant, as built and after rebuild: leaves = the occupied leaves of that side's particles
    from props import C13
    c2, o2 = C13.tsm_history(res, "C07")
    corr += c2
    orc += [x for x in o2 if x[0] in ("C07:tsm-identity", "C07:tsm-leaf")]
    return corr, orc


def run(rep, tier, seed, replay, proof_ok, proof_msg):
    import ftree
    if replay and any(ln.startswith("ftree ") for ln in open(replay)):
        ftree.standard(rep, tier, seed, replay, proof_ok, proof_msg, "C07", 120, 1500, True, evaluate_history, export=False)
        return
    corefam.standard_run(rep, tier, seed, replay, proof_ok, proof_msg, gen_cases, evaluate)
    if not replay:
        cov_core = dict(rep.cov)
        ftree.standard(rep, tier, seed, None, True, "", "C07", 120, 12000, True, evaluate_history, export=False)
        hist = dict(rep.cov)
        rep.cov.clear()
        rep.cov.update(cov_core)
        rep.cov["evaluations"] = cov_core.get("evaluations", 0) + hist.get("evaluations", 0)
        rep.cov["rebuild_history_cases"] = hist.get("evaluations", 0)
        rep.cov["rebuild_history_configs"] = hist.get("configs_built", [])
    rep.assumptions += ["positions are exact cell centres of the unit box (the float path is tied in C06)",
                        "the order of particles inside a leaf is not compared (std::sort is unstable)"]
