"""C04 — rotation kernel FMM matches the direct sum to its expansion order (partial; numeric probe)."""
import num
from props import numfam

LEVEL = "other"
# (potential, force) bounds on the normalised L2 error: about 10x the worst value observed on the pinned tree
THRESHOLDS = {("rot", 4, "double"): (5e-2, 3e-1), ("rot", 8, "double"): (2.5e-3, 3.5e-2), ("rot", 12, "double"): (4.5e-4, 6e-3), ("rot", 8, "float"): (2.5e-3, 3.5e-2)}


def run(rep, tier, seed, replay, proof_ok, proof_msg):
    numfam.run_family(rep, tier, seed, replay, proof_ok, proof_msg, num.ROT, THRESHOLDS, "C04", "rotation kernel")
