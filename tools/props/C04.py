"""C04 — rotation kernel FMM matches the direct sum to its expansion order (partial; numeric probe)."""
import num
from props import numfam

LEVEL = "other"
# (potential, force) bounds on the normalised L2 error: 2x the supremum over single well-separated pairs found by
# tools/calibrate_num.py (three seeds, 18 000 adversarial pairs: 0.113/1.06, 0.0765/0.688, 0.0332/0.481); for any input the
# normalised error is at most the supremum over single pairs.  Typical errors are 10-100x smaller: the sensitive clauses
# of this check are the exact ones (grouping / executor independence, linearity, scaling, decay with the order).
THRESHOLDS = {("rot", 4, "double"): (0.25, 2.2), ("rot", 8, "double"): (0.16, 1.4), ("rot", 12, "double"): (0.07, 1.0), ("rot", 8, "float"): (0.16, 1.4)}


XCFGS = [("rot", 8, "double", 0), ("rot", 8, "double", 1)]


def run(rep, tier, seed, replay, proof_ok, proof_msg):
    from props import numvar
    if replay and any(ln.startswith("# xcfg=") for ln in open(replay)):
        numvar.run_variants(rep, tier, seed, XCFGS, THRESHOLDS, "C04", "rotation kernel", replay=replay)
        return
    if not replay:
        # the periodic (four-step sequence with the top tree) and the target/source variants against explicit image sums
        numvar.run_variants(rep, tier, seed, XCFGS, THRESHOLDS, "C04", "rotation kernel")
    numfam.run_family(rep, tier, seed, replay, proof_ok, proof_msg, num.ROT, THRESHOLDS, "C04", "rotation kernel")
