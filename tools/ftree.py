"""Float-stream cases for the h_tree harness (construction / rebuild / export with arbitrary boxes and
scalar types): generators, runner and the shared oracles of C06, C13, C17."""
import collections
import struct
from fractions import Fraction

import common
import core
import gen

# (D, REAL, DATA, NEXTRA, NRHS, PERIODIC)
CONFIGS = [(3, "double", "double", 0, 1, 0), (3, "float", "float", 1, 1, 0), (3, "float", "double", 2, 2, 0),
           (3, "double", "float", 0, 1, 0), (2, "double", "double", 3, 0, 0), (1, "float", "float", 0, 4, 1),
           (4, "double", "double", 1, 3, 0), (3, "double", "double", 3, 4, 1), (2, "float", "double", 0, 1, 1)]


def spec_of(cfg):
    D, real, data, nextra, nrhs, periodic = cfg
    name = "h_tree_%d_%s_%s_%d_%d_%d" % (D, real[0], data[0], nextra, nrhs, periodic)
    return {"name": name, "sources": ["h_tree.cpp"],
            "flags": ["-DDIM=%d" % D, "-DREAL=%s" % real, "-DDATA=%s" % data, "-DNEXTRA=%d" % nextra, "-DNRHS=%d" % nrhs, "-DPERIODIC=%d" % periodic]}


def build_all(cfgs=CONFIGS):
    specs = {c: spec_of(c) for c in cfgs}
    res = common.build_many(list(specs.values()))
    ok, bad = {}, {}
    for c, s in specs.items():
        path, log = res[s["name"]]
        if path:
            ok[c] = path
        else:
            bad[c] = log
    return ok, bad


# ---- IEEE helpers (float32 ops = double op then one rounding, exact for + - * /) ----------------
def f32(x):
    return struct.unpack("<f", struct.pack("<f", x))[0]


def bits(x, real):
    if real == "double":
        return struct.unpack("<Q", struct.pack("<d", x))[0]
    return struct.unpack("<I", struct.pack("<f", x))[0]


def unbits(b, real):
    if real == "double":
        return struct.unpack("<d", struct.pack("<Q", b))[0]
    return struct.unpack("<f", struct.pack("<I", b))[0]


def rnd(x, real):
    return x if real == "double" else f32(x)


def nextafter(x, up, real):
    b = bits(x, real)
    if x == 0:
        return unbits(1, real) if up else -unbits(1, real)
    if (x > 0) == up:
        b += 1
    else:
        b -= 1
    return unbits(b, real)


def to_data_bits(b, real, data):
    """what the tree stores for an input value given as a RealType bit pattern"""
    return bits(rnd(unbits(b, real), data), data)


def gen_box(r, D, real):
    kind = r.choice(["unit", "shifted", "scaled", "perdim", "tiny", "big"])
    if kind == "unit":
        return [0.5] * D, [1.0] * D
    if kind == "shifted":
        c = [rnd(r.uniform(-100, 100), real) for _ in range(D)]
        return c, [1.0] * D
    if kind == "scaled":
        w = rnd(r.choice([0.3, 2.0, 7.5, 1e3, 1e-3]), real)
        return [rnd(r.uniform(-5, 5), real) for _ in range(D)], [w] * D
    if kind == "perdim":
        return [rnd(r.uniform(-5, 5), real) for _ in range(D)], [rnd(r.uniform(0.5, 4), real) for _ in range(D)]
    if kind == "tiny":
        return [rnd(r.uniform(-1, 1), real) for _ in range(D)], [rnd(1e-4, real)] * D
    return [rnd(r.uniform(-1e4, 1e4), real) for _ in range(D)], [rnd(512.0, real)] * D


def lib_corner(c, w, real):
    return rnd(c + rnd(w * rnd(-1.0 / 2.0, real), real), real)


def lib_leafw(w, H, real):
    return rnd(w * rnd(1.0 / float(1 << (H - 1)), real), real)


def inside(x, corner, w, real, data):
    """the library's own validity test on a stored value: 0 <= RealType(x - corner) <= width, computed in the wider of the two types"""
    wide = "double" if "double" in (real, data) else "float"
    rel = rnd(rnd(x - corner, wide), real)
    return 0 <= rel <= w


def gen_position(r, D, H, center, width, real, prec=None, data=None):
    """a position inside the closed box; biased to faces of cells / of the box and their 1-ulp neighbours.
    `prec` = precision in which the coordinates are representable (the narrower of coordinate and data type for
    inputs, the data type for in-place edits)"""
    prec = prec or real
    data = data or real
    pos = []
    for d in range(D):
        corner = lib_corner(center[d], width[d], real)
        lw = lib_leafw(width[d], H, real)
        hi = rnd(corner + width[d], real)
        mode = r.random()
        if mode < 0.55:
            x = rnd(corner + r.random() * width[d], real)
        elif mode < 0.8:
            k = r.randrange(0, (1 << (H - 1)) + 1)
            x = rnd(corner + rnd(k * lw, real), real)
            j = r.random()
            if j < 0.3:
                x = nextafter(x, True, real)
            elif j < 0.6:
                x = nextafter(x, False, real)
        elif mode < 0.9:
            x = corner
        else:
            x = hi
        if prec != real:
            j = r.random()
            x = rnd(x, prec) if prec == "float" else (x if j < 0.4 else nextafter(x, j < 0.7, "double"))
        # stay inside [corner, corner + width] as the library's assert requires (relative position in [0, width])
        for _ in range(6):
            if inside(x, corner, width[d], real, data) and inside(x, corner, width[d], real, real):
                break
            rel = x - corner
            x = nextafter(x, rel < 0, prec)
        if not (inside(x, corner, width[d], real, data) and inside(x, corner, width[d], real, real)):
            x = rnd(corner + 0.5 * width[d], prec)
        pos.append(x)
    return pos


def make_case(name, cfg, r, tier, with_history, export=True):
    D, real, data, nextra, nrhs, periodic = cfg
    H = gen.pick_height(r, D)
    if periodic and H < 2:
        H = 2
    if H > 6:
        H = 6
    # deep, sparse trees (leaf indices beyond 31 bits), decided by a generator of its own so that the main stream - and with it
    # every other case of the family - is what it was before this option existed
    import random
    rdeep = random.Random(hash(r.getstate()[1][:8]))
    if real == "double" and data == "double" and rdeep.random() < 0.06:
        H = gen.pick_height_deep(rdeep, D)
    center, width = gen_box(r, D, real)
    if nrhs > 0 and len(set(width)) > 1:
        pass  # per-dimension widths are fine for the counting kernel
    n = r.choice([1, 2, 3, 5, 8, 13, 21, 40])
    parts = []
    for _ in range(n):
        narrow = "float" if "float" in (real, data) else "double"
        p = gen_position(r, D, H, center, width, real, prec=narrow, data=data)
        p += [rnd(r.uniform(-10, 10), narrow) for _ in range(nextra)]
        parts.append(p)
    if r.random() < 0.2 and n > 1:
        parts[1] = list(parts[0])          # coincident particles
    nleaves_guess = max(1, min(n, 1 << (D * (H - 1))))
    bs = gen.pick_bs(r, nleaves_guess)
    mode = r.randrange(2)
    hx = lambda v: "%x" % bits(v, real)
    lines = ["case " + name,
             "ftree D=%d H=%d periodic=%d real=%d data=%d nextra=%d nrhs=%d %s %s" % (
                 D, H, periodic, 64 if real == "double" else 32, 64 if data == "double" else 32, nextra, nrhs,
                 " ".join(hx(c) for c in center), " ".join(hx(w) for w in width)),
             "fparts %d %s" % (n, " ".join(hx(v) for p in parts for v in p)),
             "build bs=%d mode=%d" % (bs, mode),
             "mark built", "dump zero", "dump leaves", "dump groups", "digest"] + (["export data", "export rhs"] if export else [])
    if nrhs > 0:
        lines.append("dump tsmleaves bs=%d mode=%d" % (bs, mode))      # what a target/source tree stores on each side for the same particles
    moves_per_cycle = []
    if nrhs > 0:
        lines += ["mark exec1", "fexec", "digest", "dump rhs", "bytecopy"] + (["export rhs", "export data"] if export else [])
    if with_history:
        cur = [list(p) for p in parts]
        for cyc in range(r.choice([1, 2, 3])):
            moves = []
            for i in r.sample(range(n), r.randint(0, n)):
                np_ = gen_position(r, D, H, center, width, real, prec=data, data=data)     # edits are made in the data type
                moves.append((i, np_))
                cur[i][:D] = np_
            moves_per_cycle.append(moves)
            lines += ["move %d %s" % (i, " ".join("%x" % bits(v, data) for v in np_)) for i, np_ in moves]
            lines += ["mark rebuilt%d" % cyc, "rebuild", "dump zero", "dump leaves", "dump groups", "dump rhs"] + (["export data", "export rhs"] if export else [])
            if nrhs > 0:
                lines += ["mark reexec%d" % cyc, "fexec", "dump rhs"] + (["export rhs"] if export else [])
            # a fresh tree built from the edited particles, for comparison (meaningful when DATA == REAL)
            if real == data:
                lines += ["mark fresh%d" % cyc, "fparts %d %s" % (n, " ".join(hx(v) for p in cur for v in p)), "build bs=%d mode=%d" % (bs, mode),
                          "dump leaves", "dump groups"]
                if nrhs > 0:
                    lines += ["fexec", "dump rhs"]
                # restore the driver/harness state is not needed: each cycle's fresh tree replaces the tree, so only one cycle is compared this way
                break
    tsm_moves = {"s": [], "t": []}
    tsm_input = [list(p) for p in parts]
    if with_history and real == data and moves_per_cycle:
        tsm_input = [list(p) for p in cur]       # the comparison with a fresh tree re-sent the edited particles (fparts)
    if nrhs > 0 and with_history:
        # the same history on a target/source tree over the same particles (both sets): each side moves on its own
        lines += ["mark tsm0", "tsm build bs=%d mode=%d" % (bs, mode), "tsm dump", "tsm exec", "tsm export"]
        for side in ("s", "t"):
            for i in r.sample(range(n), r.randint(0, n)):
                np_ = gen_position(r, D, H, center, width, real, prec=data, data=data)
                tsm_moves[side].append((i, np_))
                lines.append("tsm move %s %d %s" % (side, i, " ".join("%x" % bits(v, data) for v in np_)))
        lines += ["mark tsm1", "tsm rebuild", "tsm dump", "tsm exec", "tsm export"]
    lines.append("end")
    return {"name": name, "cfg": cfg, "D": D, "H": H, "periodic": periodic, "lines": lines, "parts": [],
            "meta": {"center": center, "width": width, "particles": parts, "bs": bs, "mode": mode, "moves": moves_per_cycle, "tsm_moves": tsm_moves, "tsm_input": tsm_input}, "bs": bs, "mode": mode}


def run_cases(cases, binaries):
    groups = collections.defaultdict(list)
    for c in cases:
        groups[c["cfg"]].append(c)
    jobs = []
    for cfg, cs in groups.items():
        if cfg not in binaries:
            continue
        for i in range(0, len(cs), 16):
            jobs.append((binaries[cfg], cs[i:i + 16]))
    out = {}
    for res in common.run_parallel(core._run_chunk, jobs):
        for r in res:
            out[r.case["name"]] = r
    return [out[c["name"]] for c in cases if c["name"] in out]


def segments(lines):
    segs, cur = {"": []}, ""
    for ln in lines:
        if ln.startswith("M "):
            cur = ln[2:].strip()
            segs[cur] = []
        else:
            segs[cur].append(ln)
    return segs


def contains(case, leaf_coord, pos_values, tol_ulps=4):
    """the leaf box with integer coordinate `leaf_coord` contains the stored position (closed on the box's upper faces),
    up to `tol_ulps` units in the last place of the coordinate type (IEEE rounding of (x - corner) / leafWidth)"""
    D, real, data = case["cfg"][0], case["cfg"][1], case["cfg"][2]
    H = case["H"]
    m = case["meta"]
    lim = 1 << (H - 1)
    for d in range(D):
        corner = lib_corner(m["center"][d], m["width"][d], real)
        lw = lib_leafw(m["width"][d], H, real)
        x = Fraction(pos_values[d])
        lo = Fraction(corner) + leaf_coord[d] * Fraction(lw)
        hi = Fraction(corner) + (leaf_coord[d] + 1) * Fraction(lw)
        scale = max(abs(Fraction(corner)), abs(x), Fraction(m["width"][d]))
        eps = Fraction(1, 1 << (52 if real == "double" else 23)) * scale * tol_ulps
        upper_ok = (x < hi + eps) or (leaf_coord[d] == lim - 1 and x <= Fraction(corner) + Fraction(m["width"][d]) + eps)
        if not (lo - eps <= x and upper_ok):
            return False
    return True


def parse_leaves(lines, D):
    leaves, parts = [], {}
    for ln in lines:
        t = ln.split()
        if ln.startswith("LF "):
            idx = int(t[2])
            coord = [int(x) for x in t[3:3 + D]]
            ps = [int(x) for x in t[4 + D:]]
            leaves.append((int(t[1]), idx, coord, ps))
        elif ln.startswith("P "):
            parts[int(t[1])] = (int(t[2]), [int(x, 16) for x in t[3:]])
    return leaves, parts


def standard(rep, tier, seed, replay, proof_ok, proof_msg, tag, n_quick, n_thorough, with_history, evaluate, export=True):
    binaries, bad = build_all()
    if bad:
        rep.notes.append("h_tree configurations that do not compile (reported by C19): %r" % sorted(bad))
    if not binaries:
        rep.violation("harness-does-not-compile", list(bad.values())[0][-3000:], False, "no configuration of harness/h_tree.cpp compiles")
        return
    cases = []
    if replay:
        cases = [parse_replay(replay)]
    else:
        n = n_quick if tier == "quick" else n_thorough
        for k in range(n):
            r = gen.rng(seed, tag, k)
            cfg = sorted(binaries)[k % len(binaries)]
            cases.append(make_case("%s-%d" % (tag.lower(), k), cfg, r, tier, with_history, export))
    results = run_cases(cases, binaries)
    from props import corefam
    n_eval, distinct, hist, samples, corr_broken, oracle_found = 0, set(), collections.Counter(), [], [], False
    for res in results:
        c = res.case
        n_eval += 1
        text = "# cfg=%r\n" % (c["cfg"],) + "\n".join(c["lines"]) + "\n"
        if res.crash is not None:
            sig = "crash:" + corefam.crash_signature(res.crash)
            rep.violation(sig, "# harness aborted inside this case\n# " + res.crash.replace("\n", "\n# ") + "\n" + text, True,
                          "the real library aborted on case %s: %s" % (c["name"], corefam.crash_signature(res.crash)))
            oracle_found = True
            continue
        if res.cpp is None:
            continue
        if res.lean is None or not res.lean or res.lean[-1] != "end":
            rep.violation("lean-driver-error", "# Lean driver produced no complete output\n" + text, False, "Lean driver failed on case %s" % c["name"])
            continue
        corr, orc = evaluate(res)
        for sig, msg in orc[:4]:
            oracle_found = True
            rep.violation(sig, "# property oracle failed on the implementation's output: %s\n%s" % (msg.replace("\n", "\n# "), text), True, "case %s (cfg %r): %s" % (c["name"], c["cfg"], msg))
        if corr and not orc:
            corr_broken.append((res, corr))
        m = c["meta"]
        key = repr((c["cfg"], c["H"], m["particles"], m["bs"], m["mode"], m["moves"]))
        if len(m["particles"]) > 1:
            distinct.add(key)
        hist["cfg=%s/%s D=%d" % (c["cfg"][1], c["cfg"][2], c["cfg"][0])] += 1
        hist["H=%d" % c["H"]] += 1
        if len(samples) < 2 and len(m["particles"]) > 2:
            samples.append({"cfg": list(c["cfg"]), "H": c["H"], "center": m["center"], "width": m["width"], "first_particles": m["particles"][:3], "bs": m["bs"], "mode": m["mode"],
                            "n_moves": [len(x) for x in m["moves"]]})
    for res, corr in corr_broken[:3]:
        sig, msg = corr[0]
        rep.violation("corr:" + sig, "# correspondence (h_tree harness vs Lean model, bit-exact float path) no longer holds: %s\n# the property's oracle accepts the implementation's output on this input\n# cfg=%r\n%s\n" %
                      (msg, res.case["cfg"], "\n".join(res.case["lines"])), False, "case %s: model and implementation disagree (%s) but no property failure was found" % (res.case["name"], msg))
    if not proof_ok and not oracle_found:
        rep.violation("proof-broken", "# proof obligations that no longer check:\n# " + proof_msg.replace("\n", "\n# ") + "\n", False, "proof stage failed: " + proof_msg.split("\n")[0])
    rep.cov["evaluations"] = n_eval
    rep.cov["distinct_nontrivial"] = len(distinct)
    rep.cov["rule"] = "seeded float-stream generator (boxes: unit/shifted/scaled/per-dimension/tiny/big; positions biased to cell and box faces and their 1-ulp neighbours, coincident particles); distinct by full input; non-trivial = more than one particle"
    rep.cov["shape_histogram"] = dict(hist)
    rep.cov["samples"] = samples or [{"note": "none"}]
    rep.cov["configs_built"] = [spec_of(c)["name"] for c in sorted(binaries)]


def parse_replay(path):
    lines = [ln.rstrip("\n") for ln in open(path)]
    cfg = None
    for ln in lines:
        if ln.startswith("# cfg="):
            cfg = eval(ln[6:])
    body = [ln for ln in lines if ln.strip() and not ln.startswith("#")]
    name = [ln for ln in body if ln.startswith("case ")][0][5:].strip()
    # meta is reconstructed from the lines
    D, real, data, nextra, nrhs, periodic = cfg
    ft = [ln for ln in body if ln.startswith("ftree ")][0].split()
    H = int([t for t in ft if t.startswith("H=")][0][2:])
    vals = [int(t, 16) for t in ft[1:] if "=" not in t]
    center = [unbits(v, real) for v in vals[:D]]
    width = [unbits(v, real) for v in vals[D:2 * D]]
    fp = [ln for ln in body if ln.startswith("fparts ")][0].split()
    n = int(fp[1])
    pv = [unbits(int(t, 16), real) for t in fp[2:]]
    nd = D + nextra
    parts = [pv[i * nd:(i + 1) * nd] for i in range(n)]
    b = [ln for ln in body if ln.startswith("build ")][0].split()
    bs = int([t for t in b if t.startswith("bs=")][0][3:])
    mode = int([t for t in b if t.startswith("mode=")][0][5:])
    moves, cur = [], []
    for ln in body:
        if ln.startswith("move "):
            t = ln.split()
            cur.append((int(t[1]), [unbits(int(x, 16), data) for x in t[2:]]))
        if ln.startswith("rebuild"):
            moves.append(cur)
            cur = []
    return {"name": name, "cfg": cfg, "D": D, "H": H, "periodic": periodic, "lines": body, "parts": [],
            "meta": {"center": center, "width": width, "particles": parts, "bs": bs, "mode": mode, "moves": moves}, "bs": bs, "mode": mode}
