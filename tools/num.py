"""Numeric probes of the rotation / uniform kernels (C04, C05): harness specs, case generation, runner,
reference direct sums and error norms.  These are *tests* (labelled so in the evidence), not proofs."""
import collections
import math
import struct

import common
import ftree
import gen

ROT = [("rot", 4, "double"), ("rot", 8, "double"), ("rot", 12, "double"), ("rot", 8, "float")]
UNIF = [("unif", 3, "double"), ("unif", 5, "double"), ("unif", 7, "double"), ("unif", 5, "float")]


def spec_of(cfg):
    kind, order, real = cfg
    return {"name": "h_num_%s_%d_%s" % (kind, order, real[0]), "sources": ["h_num.cpp", "mock_gomp.cpp"],
            "flags": ["-DKERNEL_%s" % kind.upper(), "-DKORDER=%d" % order, "-DREAL=%s" % real, "-DUSE_OMP", "-fopenmp"], "libs": ["-lfftw3", "-lfftw3f"]}


def build(cfgs):
    specs = {c: spec_of(c) for c in cfgs}
    res = common.build_many(list(specs.values()))
    ok, bad = {}, {}
    for c, s in specs.items():
        path, log = res[s["name"]]
        if path:
            ok[c] = path
        else:
            bad[c] = log
    return ok, bad


def gen_input(r, tier):
    """box (cubic), height, particles (x, y, z, q) as python floats representable in float32 (so that float and double
    configurations see exactly the same input).  Positions keep a distance of 1e-3 leaf widths from the faces of the
    *box*; faces of interior cells, cell centres and cell axes are hit exactly when the box is the unit box (dyadic)."""
    f = ftree.f32
    kind = r.choice(["unit", "unit", "shifted", "scaled", "generic"])
    if kind == "generic":
        # non-dyadic centre and width: the tree's cell of a point and the kernels' leaf interval are computed with different roundings
        center, width = [f(r.uniform(-3.0, 3.0)) for _ in range(3)], f(r.uniform(0.3, 5.0))
    elif kind == "unit":
        center, width = [0.5, 0.5, 0.5], 1.0
    elif kind == "shifted":
        center, width = [f(r.choice([-2.0, -0.5, 0.25, 1.5, 3.0])) for _ in range(3)], 1.0
    else:
        center, width = [f(r.choice([-1.0, 0.0, 0.5, 2.0])) for _ in range(3)], f(r.choice([0.25, 2.0, 8.0]))
    H = r.choice([1, 2, 3, 3, 4, 4, 5, 5, 6])
    n = r.choice([1, 2, 5, 20, 50, 100, 150] if tier == "quick" else [1, 2, 5, 20, 50, 100, 200, 400])
    corner = [c - width / 2 for c in center]     # exact: centres and widths are dyadic
    ncell = 1 << (H - 1)
    lw = width / ncell
    pk = r.choice(["uniform", "clustered", "faces", "centres", "axes"])
    if kind == "generic" and pk in ("centres", "axes"):
        pk = "faces"          # (nearly) on the axis of a leaf is the neighbourhood of the known finding F-10; exact only in dyadic boxes
    pts = []
    cl = [[r.random() for _ in range(3)] for _ in range(3)]
    lo, hi = 1e-3 / ncell, 1 - 1e-3 / ncell
    for _ in range(n):
        if pk == "uniform":
            u = [r.uniform(lo, hi) for _ in range(3)]
        elif pk == "clustered":
            c = r.choice(cl)
            u = [min(hi, max(lo, c[d] + r.gauss(0, 0.05))) for d in range(3)]
        elif pk == "faces":
            u = [(r.randrange(1, ncell) / ncell if ncell > 1 else 0.5) if r.random() < 0.5 else r.uniform(lo, hi) for d in range(3)]
        elif pk == "centres":
            u = [((r.randrange(0, ncell) + 0.5) / ncell) for d in range(3)]
        else:
            u = [0.5, 0.5, 0.5]
            u[r.randrange(3)] = r.uniform(lo, hi)
        p = [f(corner[d] + u[d] * width) for d in range(3)]
        for d in range(3):
            if not (corner[d] < p[d] < corner[d] + width):
                p[d] = f(center[d])
        q = f(r.choice([-1, 1]) * r.uniform(0.05, 1.0)) if r.random() < 0.8 else f(r.uniform(0.05, 1.0))
        pts.append(p + [q])
    seen, out = set(), []
    for p in pts:
        if tuple(p[:3]) not in seen:
            seen.add(tuple(p[:3]))
            out.append(p)
    return {"center": center, "width": width, "H": H, "pts": out, "box": kind, "pkind": pk}


def case_lines(name, inp, real, runs):
    hx = lambda v: "%x" % ftree.bits(v, real)
    lines = ["case " + name, "nbox H=%d %s %s" % (inp["H"], " ".join(hx(c) for c in inp["center"]), hx(inp["width"])),
             "nparts %d %s" % (len(inp["pts"]), " ".join(hx(v) for p in inp["pts"] for v in p))]
    for rn in runs:
        lines.append("nrun " + rn)
    lines.append("end")
    return lines


def parse_runs(lines, real):
    """list of runs, each {index: [pot, fx, fy, fz]}"""
    runs, cur, last = [], None, -1
    for ln in lines:
        if ln.startswith("NR "):
            t = ln.split()
            i = int(t[1])
            if cur is None or i <= last:
                cur = {}
                runs.append(cur)
            cur[i] = [ftree.unbits(int(x, 16), real) for x in t[2:]]
            last = i
    return runs


def direct(pts):
    """reference: pot_i = sum q_j / r, f_i = sum q_i q_j (x_j - x_i) / r^3, plus the sums of absolute contributions"""
    n = len(pts)
    pot = [0.0] * n
    frc = [[0.0, 0.0, 0.0] for _ in range(n)]
    mag = [0.0] * n
    fmag = [0.0] * n
    for i in range(n):
        xi, yi, zi, qi = pts[i]
        for j in range(i + 1, n):
            xj, yj, zj, qj = pts[j]
            dx, dy, dz = xj - xi, yj - yi, zj - zi
            r2 = dx * dx + dy * dy + dz * dz
            inv = 1.0 / math.sqrt(r2)
            pot[i] += qj * inv
            pot[j] += qi * inv
            mag[i] += abs(qj) * inv
            mag[j] += abs(qi) * inv
            k = qi * qj * inv / r2
            frc[i][0] += dx * k
            frc[i][1] += dy * k
            frc[i][2] += dz * k
            frc[j][0] -= dx * k
            frc[j][1] -= dy * k
            frc[j][2] -= dz * k
            fm = abs(k) * math.sqrt(r2)
            fmag[i] += fm
            fmag[j] += fm
    return pot, frc, mag, fmag


def errors(run, ref):
    """(potential error, force error) normalised by the sums of absolute pair contributions (L2 over particles)"""
    pot, frc, mag, fmag = ref
    n = len(pot)
    if n < 2:
        return 0.0, 0.0, all(math.isfinite(v) for i in run for v in run[i])
    num = den = fnum = fden = 0.0
    finite = True
    for i in range(n):
        v = run[i]
        if not all(math.isfinite(x) for x in v):
            finite = False
            continue
        num += (v[0] - pot[i]) ** 2
        den += mag[i] ** 2
        fnum += sum((v[1 + d] - frc[i][d]) ** 2 for d in range(3))
        fden += fmag[i] ** 2
    return math.sqrt(num / den) if den else 0.0, math.sqrt(fnum / fden) if fden else 0.0, finite


def maxdiff(a, b, ref):
    """largest difference between two runs relative to the magnitude of the accumulated contributions"""
    pot, frc, mag, fmag = ref
    worst = 0.0
    for i in a:
        if mag[i] > 0:
            worst = max(worst, abs(a[i][0] - b[i][0]) / mag[i])
        if fmag[i] > 0:
            worst = max(worst, max(abs(a[i][1 + d] - b[i][1 + d]) for d in range(3)) / fmag[i])
    return worst
