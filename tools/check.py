#!/usr/bin/env python3
"""Entry point of every check:  python3 tools/check.py <ID> --tier quick|thorough [--replay <file>]

Steps (DESIGN.md §1.2): regenerate tables from /repo -> lake build (proofs re-checked) -> axiom audit
of the property's theorems -> build the harness from /repo's working tree -> corpus + generated cases
through the real library and the Lean model -> compare (correspondence) and evaluate the property's
spec oracle on the implementation's own output -> verdict + evidence."""
import argparse
import importlib
import os
import sys

sys.path.insert(0, os.path.dirname(os.path.abspath(__file__)))
import common  # noqa: E402


def proof_stage(rep, pid):
    """lake build + audit.  Returns (ok, text describing what broke)."""
    reg = common.registry().get(pid, {})
    theorems = reg.get("theorems", [])
    targets = reg.get("targets", [])
    broken = []
    pre = getattr(importlib.import_module("props." + pid), "pre_build", None)
    if pre:
        try:
            pre(rep)
        except Exception as e:
            broken.append("translator failed (source pattern no longer recognised): %r" % (e,))
    ok, log = common.lake_build()
    if not ok:
        tail = "\n".join(l for l in log.split("\n") if "error" in l.lower())[:3000]
        broken.append("lake build failed:\n" + tail)
    ok_t = True
    if ok and targets:
        ok_t, log_t = common.lake_build(targets)
        if not ok_t:
            tail = "\n".join(l for l in log_t.split("\n") if "error" in l.lower() or "is false" in l)[:3000]
            broken.append("lake build of %s failed (theorems over tables regenerated from /repo):\n%s" % (" ".join(targets), tail))
    hits = common.grep_forbidden()
    if hits:
        broken.append("forbidden tokens in Lean sources: " + "; ".join("%s:%d %s" % h for h in hits[:5]))
    if ok and not ok_t:
        # audit what does build; theorems of the failing modules count as not discharged
        aud = common.audit([t for t in theorems if not t.startswith("Tbfmm.Generated.")])
        for t in theorems:
            aud.setdefault(t, {"ok": False, "axioms": [], "msg": "its module does not build"})
    elif ok:
        aud = common.audit(theorems, targets)
    else:
        aud = {t: {"ok": False, "axioms": [], "msg": "not built"} for t in theorems}
    discharged = [t for t in theorems if aud[t]["ok"]]
    for t in theorems:
        if not aud[t]["ok"]:
            broken.append("proof obligation %s: %s" % (t, aud[t]["msg"]))
    axioms = sorted({a for t in theorems for a in aud[t]["axioms"]})
    rep.cov["obligations"] = len(theorems)
    rep.cov["discharged"] = len(discharged)
    rep.cov["theorems"] = theorems
    rep.cov["axioms_used"] = axioms
    rep.cov["checker_cmd"] = "cd lean && lake build Tbfmm tbfmm_driver && lake env lean <audit file with `#print axioms` for each registered theorem>"
    rep.cov["trusted_base"] = ["Lean 4.33.0 kernel", "axioms: " + (", ".join(axioms) if axioms else "none"),
                               "hand-written Lean model tied to /repo/src by this run's differential cases (see evaluations)",
                               "g++ 12 with ASan/UBSan, assertions enabled", "tools/*.py (generators, canonicaliser, oracles)"] + reg.get("trusted_extra", [])
    if reg.get("partial"):
        rep.cov["partial_statements"] = reg["partial"]
    return not broken, "\n".join(broken)


def main():
    ap = argparse.ArgumentParser()
    ap.add_argument("pid")
    ap.add_argument("--tier", default=os.environ.get("VERIF_TIER", "quick"), choices=["quick", "thorough"])
    ap.add_argument("--replay", default=None)
    args = ap.parse_args()
    seed = int(os.environ.get("VERIF_SEED", "1"))
    mod = importlib.import_module("props." + args.pid)
    rep = common.Report(args.pid, args.tier, seed, mod.LEVEL)
    try:
        proof_ok, proof_msg = proof_stage(rep, args.pid)
        mod.run(rep, args.tier, seed, args.replay, proof_ok, proof_msg)
    except Exception as e:  # a crash of the machinery is reported as such, never as success
        import traceback
        tb = traceback.format_exc()
        rep.violation("machinery-error", tb, False, "check machinery raised: %r" % (e,))
    sys.exit(rep.finish())


if __name__ == "__main__":
    main()
