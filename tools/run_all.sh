#!/bin/bash
# run every claimed check once (quick tier) and validate the evidence files
cd "$(dirname "$0")/.."
tier=${1:-quick}
fail=0
for id in $(python3 -c "import json; print(' '.join(c['property_id'] for c in json.load(open('MANIFEST.json'))['checks']))"); do
  s=$(date +%s)
  out=$(python3 tools/check.py $id --tier $tier 2>&1 | tail -3)
  rc=$?
  echo "$id $(( $(date +%s) - s ))s: $(echo "$out" | tail -1)"
  echo "$out" | grep -q VIOLATION && fail=1
done
python3-vt - <<'PY'
import json, jsonschema, glob
sch=json.load(open('/root/.vp/EVIDENCE.schema.json'))
for f in sorted(glob.glob('evidence/C*.json')):
    try:
        jsonschema.validate(json.load(open(f)), sch)
    except Exception as e:
        print('INVALID', f, str(e)[:200])
print('evidence validated')
PY
exit $fail
