HOOKS = {
    "guard": "TBFMM_VERIF",
    "enable": "harnesses are compiled with -DTBFMM_VERIF; no hook in /repo is needed: all observation goes through the public API, recording kernels and the GOMP ABI boundary (mock libgomp)",
    "baseline_off_cmd": "cmake -S /repo -B /repo/_build -G Ninja && cmake --build /repo/_build && ctest --test-dir /repo/_build -j8 --timeout 900",
    "source_commits": [],
    "add_only": True,
}
ALL = ["C%02d" % i for i in range(1, 21)]
ENGINES = [
    {"name": "lean-model", "path": "lean/", "serves_properties": ALL,
     "kind_free_text": "Lean 4 project: executable Impl model + cell-level Spec + theorems (core Lean; Mathlib only for the field algebra of C20); compiled line-protocol driver; tables regenerated from /repo/src by translators (TbfmmGen)"},
    {"name": "harness", "path": "harness/", "serves_properties": ALL,
     "kind_free_text": "C++ harnesses including the real headers from /repo/src (ASan+UBSan, assertions on, pattern-initialised locals), rebuilt whenever /repo/src changes (content-hashed cache); mock libgomp that defers and reorders tasks"},
    {"name": "check-driver", "path": "tools/", "serves_properties": ALL,
     "kind_free_text": "tools/check.py: translators -> lake build -> axiom audit -> harness build -> generators -> three-way comparison (library / Impl model / Spec oracle) -> verdict + evidence"},
]
NOTES = "One driver for all checks: python3 tools/check.py <ID> --tier quick|thorough [--replay <file>]. See DESIGN.md."
P = "Lean 4 theorems on an executable model + differential correspondence with the real library + spec oracle on the library's own output"
BASE = "Lean 4.33 kernel, axioms propext / Classical.choice / Quot.sound only (audited per theorem on every run); hand-written model tied to /repo/src by this run's differential cases; g++ 12, ASan/UBSan; tools/*.py"
CHECKS = {
 "C01": {"category": "proof", "design_ref": "DESIGN.md 6 C01", "technique": P, "note": BASE + "; positions at exact cell centres; sequential executor",
         "text": "exactly-once partition proved at spec level for any dimension (far_unique, near_none); upward/downward passes proved to link every child to its parent exactly once for any grouping (upward_links); stored particles proved a permutation of the input. The remaining refinement steps (M2L/P2P group walks) are tied by a three-way differential: library calls = model calls = cell-level spec, values = closed forms, rhs = every other particle once."},
 "C02": {"category": "proof", "design_ref": "DESIGN.md 6 C02", "technique": P, "note": BASE,
         "text": "children handed to M2M/L2L proved to be exactly the sibling runs of the given parent (upward_links) with codes = low index bits (decode_childCode, decode_parent); every real kernel call's arguments are additionally re-derived geometrically by an independent oracle (levels, sibling sets, base-7/base-3 codes, separation, non-emptiness, leaf containment, original index + data identity)"},
 "C03": {"category": "proof", "design_ref": "DESIGN.md 6 C03", "technique": "translator (pragmas -> Lean tables) + decide-proved coverage/capture theorems + trace-commutation theorem + mock-libgomp schedule sweeps",
         "note": BASE + "; tools/translate_omp.py; harness/mock_gomp.cpp defines 'legal schedule'; gcc 12 maps commute to inout; Specx/StarPU not run",
         "text": "tables of every `#pragma omp task` (dependences, firstprivate, body references, lambda nesting) and of every wrapper's accessor footprint are regenerated from /repo on each run; theorems over them: declared dependences cover actual accesses, no task reads a possibly dead variable; any legal reordering of commuting-independent tasks equals submission order (legal_exec_eq). Dynamic tie: all tasks deferred past the submitting frames, fifo/lifo/random/priority(-inverted) schedules, 1..16 workers, results equal the sequential executor bit for bit."},
 "C06": {"category": "proof", "design_ref": "DESIGN.md 6 C06", "technique": P + "; bit-exact Float/Float32 run of the position->cell function", "note": BASE + "; IEEE rounding near cell faces: containment judged with 4 ulp tolerance",
         "text": "stored particles proved a permutation of the input, each under the leaf index computed for it (C06_stored_perm, C06_leaf_of_particle); the float path of getIndexFromPosition is reproduced bit for bit by the same definitions run at Lean Float/Float32 over 9 scalar-type configurations; data bit-identity, zero initialisation and the symbolic-data frame of execute() are checked on the library's output"},
 "C07": {"category": "proof", "design_ref": "DESIGN.md 6 C07", "technique": P, "note": BASE,
         "text": "leaf level: strictly increasing indices across non-empty groups of at most bs leaves (C07_leaf_groups); fixed-size level-up = duplicate-free parents cut into non-empty groups of at most bs (levelUpFixed_flatten, upFixed_ne_nil, upFixed_size); the one-group-per-parent strategy and headers are tied by verbatim structure dumps and by evaluating every clause of C07 on the library's dump"},
 "C08": {"category": "proof", "design_ref": "DESIGN.md 6 C08", "technique": P, "note": BASE + "; bs <= 0 outside the quantifier",
         "text": "the links performed by the upward/downward passes are proved independent of the grouping (upward_links); counters and stored particles likewise; for all operators the same input is built under 8-11 groupings (incl. automatic and TBFMM_BLOCK_SIZE) and the multiset of elementary interactions and all values must coincide with each other and with the grouping-free spec"},
 "C09": {"category": "proof", "design_ref": "DESIGN.md 6 C09", "technique": P, "note": BASE + "; OpenMP Tsm executor under the mock runtime",
         "text": "same theorems as C01 applied to the source and target trees; three-way differential for the target/source executors (sequential and OpenMP): calls = model = spec, values = closed forms, every target has every source exactly once, source tree owns no result storage; structure and lookup clauses evaluated on both trees"},
 "C10": {"category": "proof", "design_ref": "DESIGN.md 6 C10", "technique": P + "; geometric image-coverage oracle on the real top-tree calls", "note": BASE + "; the regular periodic pass is C01 with periodic lists",
         "text": "for every n >= 1 an image offset lies in the reported interval iff it is reached by the regular pass or by the transfer of exactly one level of the top tree (C10_cover, C10_disjoint, C10_offset_unique; n = 0 separately); the model's top tree performs one transfer per level with the windows the theorem speaks about (topTree_transfers); calls and values agree with the library for n=-1..5, D=1..4, single-tree and target/source; the set of image boxes reached is also reconstructed from the library's own calls"},
 "C11": {"category": "proof", "design_ref": "DESIGN.md 6 C11", "technique": P, "note": BASE + "; Hilbert ordering excluded (known finding)",
         "text": "Morton algebra proved for any dimension: encode/decode bijection, parent = coordinate halving, child code = low bits; list builders, position codes and per-group builders are compared exhaustively on all cells of small levels (D=1..4, periodic and not) and against an independent geometric oracle; random indices up to 62 bits"},
 "C12": {"category": "proof", "design_ref": "DESIGN.md 6 C12", "technique": P, "note": BASE,
         "text": "for every cut of the executor's chain the call list of a flag set is the concatenation of the two staged call lists (C12_split_seq, C12_split_omp, by a decide-proved 64x64x6 table of hasFlag); single flags trigger only their operator; level bounds of M2M/L2L/M2L; staged runs, single-flag frames and upper levels 0..H are also executed on the library (sequential and OpenMP)"},
 "C13": {"category": "proof", "design_ref": "DESIGN.md 6 C13", "technique": P, "note": BASE,
         "text": "gather/scatter by original index proved mutually inverse (stored indices are a permutation of 0..N-1); move/rebuild/execute histories over 9 scalar configurations: identity, data bits, leaf containment, preserved results, zero expansions, structure = fresh tree of edited particles, next execution adds exactly one full interaction"},
 "C14": {"category": "proof", "design_ref": "DESIGN.md 6 C14", "technique": P, "note": BASE,
         "text": "for any block list, element sizes and counts: leading dimension >= size and multiple of 64, every accessor inside its block, blocks chained without overlap, trailer disjoint from blocks also in a reused larger allocation, alignment; 40 instantiated layouts compared address by address with the model incl. reuse, byte copy and move; byte copies of every group of real trees viewed through the raw-memory constructors"},
 "C15": {"category": "other", "design_ref": "DESIGN.md 6 C15", "technique": "proved bounds on the model + sanitizer sweep of every harness family", "note": BASE + "; sanitizers only see executions that happen",
         "text": "partial: in-bounds/alignment (C14), lookup exactness (C16) and task capture safety (C03 tables) are theorems; heap lifetime, leaks and UB of the C++ itself cannot be theorems about a model and are explored: all families under ASan+LSan+UBSan, assertions on, deferred tasks, pattern-initialised locals"},
 "C16": {"category": "proof", "design_ref": "DESIGN.md 6 C16", "technique": P, "note": BASE,
         "text": "the binary-search loop is proved to return the first position not below the key (lowerBoundIdx_spec) and the in-group lookup to find an index iff present with the right position (findCell_spec); group selection is compared exhaustively over all indices of small levels and against an existence oracle on the library's own dump"},
 "C17": {"category": "proof", "design_ref": "DESIGN.md 6 C17", "technique": P, "note": BASE,
         "text": "stored original indices proved a permutation of 0..N-1, so indexing the export by original index writes every row once; exports of data (1..6 values, float/double) and results (0..4 values) compared with the input / the tree before and after execution and rebuild"},
 "C18": {"category": "proof", "design_ref": "DESIGN.md 6 C18", "technique": P, "note": BASE + "; timer wrapper not exercised",
         "text": "counters of a call list = counters of its elementary interactions whatever the batching (C18_counts_are_elems); merge is commutative/associative and any distribution of calls over workers merges to the same totals (C18_merge_perm, C18_workers); counter-wrapped recording kernel under sequential and OpenMP/mock with 1..16 workers and random merge order; wrapped results = unwrapped"},
 "C19": {"category": "other", "design_ref": "DESIGN.md 6 C19", "technique": "compile matrix of harness translation units + per-configuration correspondence", "note": "g++ 12 -std=c++17; Specx/StarPU absent",
         "text": "partial: 'instantiates' is decided by compiling one harness TU per configuration (33 TUs: dimensions 1-4 x periodic x executors x tree kinds x scalar types); the guarantees are theorems generic in D and grouping and every compiled configuration runs the exactly-once correspondence"},
 "C20": {"category": "proof", "design_ref": "DESIGN.md 6 C20", "technique": "Lean theorems over an arbitrary field + bit-exact Float/Float32 run of the same definitions + 60-digit reference", "note": BASE + "; Mathlib (ring, field_simp) for the algebra; scalar path only",
         "text": "over any field with any function in place of sqrt: the one-sided routine adds exactly the sum of pair terms, the mutual routine's targets equal the one-sided result and each source receives the exact negation; with rs(1/r^2)=1/r the terms are q/r and q_i q_j dx/r^3; the same definitions run at Float/Float32 reproduce the library bit for bit; results within rounding of a 60-digit evaluation"},
 "C04": {"category": "other", "design_ref": "DESIGN.md 6 C04", "technique": "proved conventions/additivity/reference law + numeric probe of the real kernel against an independent direct sum",
         "note": "numerical test, thresholds empirical (about 10x the worst error on the pinned tree); truncation error of the rotation kernel is not formalised",
         "text": "partial: what can be proved is proved elsewhere (argument conventions C02, grouping/executor invariance for additive kernels C08/C03, the pairwise law of the reference C20); the truncation-error clause is tested: orders 4/8/12, float/double, heights 1..6, shifted/scaled boxes, points on cell faces/centres/axes, 3 groupings incl. OpenMP(mock) per case, linear charge splitting, finiteness, error decay with the order"},
 "C05": {"category": "other", "design_ref": "DESIGN.md 6 C05", "technique": "proved conventions/additivity/reference law + numeric probe of the real kernel against an independent direct sum",
         "note": "numerical test, thresholds empirical; interpolation error of the uniform kernel is not formalised",
         "text": "partial: as C04 for the uniform kernel, orders 3/5/7, float/double; batches of children are exercised through bs=1 / one-group-per-parent groupings that split sibling sets across M2M calls"},
}
REASONS = {
 "C04": "not claimed yet: numeric probe of the rotation kernel not built in this commit",
 "C05": "not claimed yet: numeric probe of the uniform kernel not built in this commit",
}
NOT_APPLICABLE = {p: REASONS.get(p, "not claimed in this commit") for p in ALL}
