HOOKS = {
    "guard": "TBFMM_VERIF",
    "enable": "harnesses are compiled with -DTBFMM_VERIF (no hook in /repo is needed so far: all observation goes through the public API, recording kernels and the GOMP ABI boundary)",
    "baseline_off_cmd": "cmake -S /repo -B /repo/_build -G Ninja && cmake --build /repo/_build && ctest --test-dir /repo/_build -j8 --timeout 900",
    "source_commits": [],
    "add_only": True,
}
ENGINES = [
    {"name": "lean-model", "path": "lean/", "serves_properties": ["C07"],
     "kind_free_text": "Lean 4 model (Impl + Spec) with theorems; compiled driver speaking the line protocol"},
    {"name": "harness", "path": "harness/", "serves_properties": ["C07"],
     "kind_free_text": "C++ harnesses including the real headers from /repo/src, rebuilt from the working tree (content-hashed cache)"},
]
NOTES = "One driver for all checks: tools/check.py <ID> --tier quick|thorough. See DESIGN.md."
PENDING = "not claimed yet: the check for this property is not built in this commit (work in progress, see DESIGN.md §10)"
CHECKS = {
    "C07": {"category": "proof", "design_ref": "DESIGN.md §6 C07",
            "text": "structure invariants of the built tree proved on the Lean model of the constructor; model tied to the real constructor by differential structure dumps; the invariants are also evaluated on the implementation's own dump",
            "note": "Lean kernel + standard axioms; hand-written model tied by this run's differential cases; positions at exact cell centres",
            "technique": "Lean 4 theorems on an executable model + differential correspondence"},
}
NOT_APPLICABLE = {p: PENDING for p in ["C%02d" % i for i in range(1, 21)]}
