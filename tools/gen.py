"""Case generators (DESIGN.md §4.3).  Every random choice derives from (VERIF_SEED, case number)."""
import itertools
import random


def rng(seed, *tags):
    return random.Random("%d/%s" % (seed, "/".join(str(t) for t in tags)))


# independent (python) Morton helpers used by the oracles and the generators
def encode(D, level, coords):
    idx = 0
    for b in range(level - 1, -1, -1):
        for d in range(D):
            idx = (idx << 1) | ((coords[d] >> b) & 1)
    return idx


def decode(D, level, idx):
    coords = [0] * D
    for b in range(level):
        for d in range(D - 1, -1, -1):
            coords[d] |= (idx & 1) << b
            idx >>= 1
    return coords


KINDS = ["uniform", "clustered", "lattice", "single_leaf", "two_corners", "sibling_set", "line", "dense", "faces"]


def gen_particles(r, D, H, kind, n):
    """list of integer cell coordinates (leaf level), one per particle"""
    lim = 1 << (H - 1)

    def rnd():
        return tuple(r.randrange(lim) for _ in range(D))
    if lim ** D > 65536 and kind in ("lattice", "dense"):
        kind = "clustered"           # enumerating the grid of a deep level is out of reach
    if kind == "uniform":
        return [rnd() for _ in range(n)]
    if kind == "clustered":
        centres = [rnd() for _ in range(r.randint(1, 3))]
        out = []
        for _ in range(n):
            c = r.choice(centres)
            out.append(tuple(min(lim - 1, max(0, x + r.randint(-2, 2))) for x in c))
        return out
    if kind == "lattice":
        step = r.choice([1, 2, 3])
        cells = [c for c in itertools.product(range(0, lim, step), repeat=D)]
        r.shuffle(cells)
        cells = cells[:max(1, n)]
        return [r.choice(cells) for _ in range(n)] if n > len(cells) else cells[:n]
    if kind == "single_leaf":
        c = rnd()
        return [c] * n
    if kind == "two_corners":
        a = tuple(0 for _ in range(D))
        b = tuple(lim - 1 for _ in range(D))
        return [r.choice([a, b]) for _ in range(n)]
    if kind == "sibling_set":
        base = tuple((r.randrange(lim) // 2) * 2 for _ in range(D))
        return [tuple(min(lim - 1, x + r.randint(0, 1)) for x in base) for _ in range(n)]
    if kind == "line":
        d0 = r.randrange(D)
        base = list(rnd())
        out = []
        for _ in range(n):
            c = list(base)
            c[d0] = r.randrange(lim)
            out.append(tuple(c))
        return out
    if kind == "dense":
        cells = list(itertools.product(range(lim), repeat=D))
        if len(cells) > 150:
            cells = r.sample(cells, 150)
        return cells if n <= len(cells) else cells + [r.choice(cells) for _ in range(n - len(cells))]
    if kind == "faces":
        out = []
        for _ in range(n):
            out.append(tuple(r.choice([0, lim - 1, r.randrange(lim)]) for _ in range(D)))
        return out
    raise ValueError(kind)


def pick_bs(r, nleaves):
    return r.choice([1, 1, 2, 2, 3, 4, 5, 7, max(1, nleaves // 3), max(1, nleaves // 2), max(1, nleaves - 1), nleaves, nleaves + 1, 10 ** 7])


def pick_height(r, D, big=False):
    # keep the number of cells manageable: 2^(D*(H-1)) leaves at most
    if D == 1:
        return r.choice([1, 2, 3, 4, 5, 6, 7, 8] if big else [1, 2, 3, 4, 5, 6, 7])
    if D == 2:
        return r.choice([1, 2, 3, 4, 5, 6] if big else [1, 2, 3, 4, 5])
    if D == 3:
        return r.choice([1, 2, 3, 4, 5, 6] if big else [1, 2, 3, 3, 4, 4, 5])
    return r.choice([1, 2, 3, 4] if big else [1, 2, 3, 3, 4])


def pick_height_deep(r, D):
    """heights whose leaf indices need more than 31 bits (few particles: the trees are deep and sparse)"""
    return r.choice({1: [33, 36, 41], 2: [17, 18, 21], 3: [12, 13, 14]}.get(D, [9, 10, 11]))


def case_header(name, D, H, periodic, parts):
    flat = " ".join(str(x) for c in parts for x in c)
    return ["case %s" % name, "tree D=%d H=%d periodic=%d" % (D, H, periodic), "parts %d %s" % (len(parts), flat)]
