"""Runner for the 'core' correspondence harness (tree build / lookup / executors with the recording
kernel) and the shared comparison helpers."""
import collections
import os

import common
import gen


def harness_spec(D, periodic, omp=False, wide=False, starpu=False):
    name = "h_core_%d_%d%s%s" % (D, periodic, "_omp" if omp else "", "_starpu" if starpu else "")
    flags = ["-DDIM=%d" % D, "-DPERIODIC=%d" % periodic]
    if wide:
        name += "_w64"
        flags.append("-DSLOTBITS=64")
    srcs = ["h_core.cpp"]
    if omp:
        flags += ["-DUSE_OMP", "-fopenmp"]
        srcs.append("mock_gomp.cpp")
    if starpu:
        flags += ["-DUSE_STARPU", "-I" + os.path.join(common.VERIF, "harness", "mock_starpu"),
                  "-DUSE_SPECX", "-I" + os.path.join(common.VERIF, "harness", "mock_specx")]
        srcs.append("mock_starpu.cpp")
    return {"name": name, "sources": srcs, "flags": flags}


def build_harnesses(configs, omp=False, wide=False, starpu=False):
    """configs: iterable of (D, periodic).  returns ({(D,periodic): path}, {(D,periodic): compile log of failures})"""
    specs = {c: harness_spec(c[0], c[1], omp, wide, starpu) for c in sorted(set(configs))}
    res = common.build_many(list(specs.values()))
    ok, bad = {}, {}
    for c, s in specs.items():
        path, log = res[s["name"]]
        if path:
            ok[c] = path
        else:
            bad[c] = log
    return ok, bad


class CaseResult:
    leak = None          # LeakSanitizer report of the process that ran this case's chunk (C15 bisects)

    def __init__(self, case):
        self.case = case
        self.cpp = None      # list of lines, or None when the harness died before/inside this case
        self.lean = None
        self.crash = None    # stderr excerpt when the harness aborted inside this case


def _run_chunk(args):
    binary, cases = args
    text = "\n".join("\n".join(c["lines"]) for c in cases) + "\n"
    if "threads=HW" in text:
        text = text.replace("threads=HW", "threads=%d" % common.hw_threads())     # the machine's hardware concurrency, for both sides
    rc, out, err = common.run_harness(binary, text)
    rcl, outl, errl = common.run_driver(text)
    cpp = common.split_cases(out)
    lean = common.split_cases(outl)
    results = []
    crashed_at = None
    for c in cases:
        r = CaseResult(c)
        lines = cpp.get(c["name"])
        if lines is not None and lines and lines[-1] == "end":
            r.cpp = lines
        elif crashed_at is None:
            crashed_at = c["name"]
            r.cpp = lines
            r.crash = ((err if len(err) < 5000 else err[:3500] + "\n[...]\n" + err[-1500:]) if err else "harness exit code %d without output" % rc)
        else:
            r.cpp = None
        r.lean = lean.get(c["name"])
        if r.lean is None or not r.lean or r.lean[-1] != "end":
            r.lean_error = errl[-2000:]
        results.append(r)
    if crashed_at is None and rc != 0 and "LeakSanitizer" in err:
        for r in results:
            r.leak = err[:4000]
    # cases after a crash were not run: rerun them one chunk further
    if crashed_at is not None:
        idx = [c["name"] for c in cases].index(crashed_at)
        rest = cases[idx + 1:]
        if rest:
            more = _run_chunk((binary, rest))
            results = results[:idx + 1] + more
    return results


def run_cases(cases, binaries, chunk=24):
    """cases: list of dict(name, D, periodic, lines, meta).  Returns list of CaseResult in input order."""
    groups = collections.defaultdict(list)
    for c in cases:
        groups[(c["D"], c["periodic"])].append(c)
    jobs = []
    for key, cs in groups.items():
        if key not in binaries:
            continue
        for i in range(0, len(cs), chunk):
            jobs.append((binaries[key], cs[i:i + chunk]))
    out = {}
    for res in common.run_parallel(_run_chunk, jobs):
        for r in res:
            out[r.case["name"]] = r
    return [out[c["name"]] for c in cases if c["name"] in out]


def elems_of_calls(lines, prefix="C "):
    """flatten 'C ...' call lines into a sorted multiset (list) of elementary interactions"""
    el = []
    for ln in lines:
        if not ln.startswith(prefix):
            continue
        t = ln.split()
        op = t[1]
        if op in ("P2M", "L2P"):
            el.append("%s %s %s" % (op, t[2], t[3]))
        elif op in ("M2M", "L2L", "M2L"):
            for sc in t[5:]:
                s, c = sc.split(":")
                el.append("%s %s %s %s %s" % (op, t[2], t[3], s, c))
        elif op in ("P2P", "P2PT"):
            el.append("%s %s %s %s" % (op, t[2], t[3], t[4]))
        elif op == "P2PI":
            el.append("P2PI %s" % t[2])
    return sorted(el)


def spec_elems(lines):
    return sorted(ln[3:] for ln in lines if ln.startswith("SE "))


def section(lines, prefix):
    return [ln for ln in lines if ln.startswith(prefix)]


def multiset_diff(a, b, limit=6):
    ca, cb = collections.Counter(a), collections.Counter(b)
    only_a = list((ca - cb).elements())
    only_b = list((cb - ca).elements())
    return only_a[:limit], only_b[:limit], len(only_a), len(only_b)


def shape_of_case(c):
    """(leaf index -> [particles]) computed independently from the input coordinates"""
    D, H = c["D"], c["H"]
    sh = collections.defaultdict(list)
    for p, co in enumerate(c["parts"]):
        sh[gen.encode(D, H - 1, co)].append(p)
    return sh
