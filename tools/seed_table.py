#!/usr/bin/env python3
"""Print the markdown table of seeded changes (seeded/*/meta.json) for DESIGN.md §10."""
import json, os, glob
V = os.path.dirname(os.path.dirname(os.path.abspath(__file__)))
print("| seeded change | property | what it needs to manifest | checks run against it | caught by |")
print("|---|---|---|---|---|")
for d in sorted(glob.glob(os.path.join(V, "seeded", "*"))):
    m = json.load(open(os.path.join(d, "meta.json")))
    ran = sorted(m.get("checks_against_patched_repo", {}))
    print("| `%s` | %s | %s | %s | **%s** |" % (os.path.basename(d), m["property"], m.get("needs_to_manifest", ""), ", ".join(ran), ", ".join(m.get("caught_by", [])) or "none"))
