#!/usr/bin/env python3
"""Confirm a seeded change produced by an independent sub-agent and file it under /verif/seeded/<name>/.

usage: seed_confirm.py <name> <property> <worktree> [--checks C01,C07] [--skip-suite] [--demo-cmd '<cmd with {SRC} {OUT}>']

Steps (all run by us, not by the sub-agent):
  1. the worktree's src/ differs from /repo's HEAD exactly by seed/patch.diff;
  2. the pinned suite, built in the worktree with the change, passes (26/26);
  3. the demonstration fails with the change and passes on /repo's unchanged sources;
  4. the patch is applied to /repo, the given checks are run, the patch is undone; which checks raise a VIOLATION is recorded.
"""
import argparse
import json
import os
import shutil
import subprocess
import sys
import time

VERIF = os.path.dirname(os.path.dirname(os.path.abspath(__file__)))


def sh(cmd, **kw):
    p = subprocess.run(cmd, shell=True, stdout=subprocess.PIPE, stderr=subprocess.STDOUT, **kw)
    return p.returncode, p.stdout.decode("utf-8", "replace")


def main():
    ap = argparse.ArgumentParser()
    ap.add_argument("name")
    ap.add_argument("prop")
    ap.add_argument("worktree")
    ap.add_argument("--checks", default=None)
    ap.add_argument("--skip-suite", action="store_true")
    ap.add_argument("--checks-only", action="store_true", help="the change was confirmed earlier and its worktree is gone: only run more checks against seeded/<name>/patch.diff")
    ap.add_argument("--demo-cmd", default="g++ -std=c++17 -O1 -DNDEBUG -I{SRC} {DEMO} -o {OUT}")
    ap.add_argument("--needs", default="")
    a = ap.parse_args()
    if a.checks_only:
        dst = os.path.join(VERIF, "seeded", a.name)
        meta = json.load(open(os.path.join(dst, "meta.json")))
        rc, out = sh("git -C /repo status --porcelain -- src")
        if out.strip():
            print("refusing: /repo has local changes")
            sys.exit(5)
        rc, out = sh("git -C /repo apply %s" % os.path.join(dst, "patch.diff"))
        if rc != 0:
            print("patch does not apply to /repo", out)
            sys.exit(6)
        try:
            for cid in a.checks.split(","):
                t0 = time.time()
                rc, out = sh("python3 tools/check.py %s --tier quick" % cid, cwd=VERIF)
                viol = [ln for ln in out.split("\n") if ln.startswith("VIOLATION")]
                meta["checks_against_patched_repo"][cid] = {"exit": rc, "violations": viol[:4], "first_message": next((ln.strip()[:300] for ln in out.split("\n") if ln.startswith("  ")), ""), "wall_s": round(time.time() - t0)}
                print("check %s: exit %d, %d VIOLATION line(s)" % (cid, rc, len(viol)))
        finally:
            sh("git -C /repo checkout -- .")
        meta["caught_by"] = sorted(c for c, v in meta["checks_against_patched_repo"].items() if v["violations"])
        json.dump(meta, open(os.path.join(dst, "meta.json"), "w"), indent=1)
        print("caught by", meta["caught_by"])
        return
    W = a.worktree
    seed = os.path.join(W, "seed")
    patch = os.path.join(seed, "patch.diff")
    meta = {"property": a.prop, "name": a.name, "needs_to_manifest": a.needs, "ran": []}
    prev_path = os.path.join(VERIF, "seeded", a.name, "meta.json")
    prev = json.load(open(prev_path)) if os.path.exists(prev_path) else {}
    if a.skip_suite:
        # keep the record of an earlier suite run of the same patch
        meta["ran"] += [r for r in prev.get("ran", []) if "ctest" in r.get("cmd", "")]
    if not a.needs:
        meta["needs_to_manifest"] = prev.get("needs_to_manifest", "")
    rc, out = sh("git -C %s diff -- src" % W)
    meta["patch_matches_worktree"] = (out.strip() == open(patch).read().strip()) or None
    # 2. suite
    if not a.skip_suite:
        t0 = time.time()
        rc, out = sh("cmake -S %s -B %s/_build -G Ninja -DCMAKE_BUILD_TYPE=RelWithDebInfo -DBUILD_TESTS=ON > /dev/null 2>&1; cmake --build %s/_build -j8 > %s/_build/verif_build.log 2>&1; ctest --test-dir %s/_build -j8 --timeout 900 2>&1 | tail -4" % (W, W, W, W, W))
        ok = "100% tests passed" in out and "out of 26" in out
        meta["ran"].append({"cmd": "cmake --build + ctest -j8 in the worktree with the change", "result": out.strip().split("\n")[0] if out.strip() else "", "ok": ok, "wall_s": round(time.time() - t0)})
        print("suite with change:", "PASS" if ok else "FAIL", out.strip()[:200])
        if not ok:
            print(out)
            sys.exit(2)
    # 3. demo
    demo = os.path.join(seed, "demo.cpp")
    for label, src, expect_fail in (("with the change", os.path.join(W, "src"), True), ("on /repo's unchanged sources", "/repo/src", False)):
        outbin = "/tmp/seed_demo_%s_%d" % (a.name, int(expect_fail))
        cmd = a.demo_cmd.replace("{SRC}", src).replace("{DEMO}", demo).replace("{OUT}", outbin).replace("{SEED}", seed)
        rc, out = sh(cmd, cwd=seed)
        if rc != 0:
            print("demo does not compile", label, out[-2000:])
            sys.exit(3)
        rc, out = sh(outbin, cwd=seed, timeout=1800, env=dict(os.environ, ASAN_OPTIONS="detect_stack_use_after_return=1"))
        os.unlink(outbin)
        good = (rc != 0) if expect_fail else (rc == 0)
        meta["ran"].append({"cmd": cmd + " && run", "where": label, "exit": rc, "ok": good, "tail": out.strip().split("\n")[-1][:200] if out.strip() else ""})
        print("demo %s: exit %d -> %s" % (label, rc, "as expected" if good else "UNEXPECTED"))
        if not good:
            print(out[-1500:])
            sys.exit(4)
    # 4. our checks against /repo with the patch
    caught = {}
    if a.checks:
        rc, out = sh("git -C /repo status --porcelain -- src")
        if out.strip():
            print("refusing: /repo has local changes")
            sys.exit(5)
        rc, out = sh("git -C /repo apply %s" % patch)
        if rc != 0:
            print("patch does not apply to /repo", out)
            sys.exit(6)
        try:
            for cid in a.checks.split(","):
                t0 = time.time()
                rc, out = sh("python3 tools/check.py %s --tier quick" % cid, cwd=VERIF)
                viol = [ln for ln in out.split("\n") if ln.startswith("VIOLATION")]
                caught[cid] = {"exit": rc, "violations": viol[:4], "first_message": next((ln.strip()[:300] for ln in out.split("\n") if ln.startswith("  ")), ""), "wall_s": round(time.time() - t0)}
                print("check %s: exit %d, %d VIOLATION line(s)" % (cid, rc, len(viol)))
        finally:
            sh("git -C /repo checkout -- .")
    merged = dict(prev.get("checks_against_patched_repo", {}))
    merged.update(caught)
    caught = merged
    meta["checks_against_patched_repo"] = caught
    meta["caught_by"] = sorted(c for c, v in caught.items() if v["violations"])
    dst = os.path.join(VERIF, "seeded", a.name)
    os.makedirs(dst, exist_ok=True)
    for f in os.listdir(seed):
        p = os.path.join(seed, f)
        if os.path.isfile(p) and os.path.getsize(p) < 400000 and not f.endswith((".o", ".log")) and not os.access(p, os.X_OK):
            shutil.copy(p, os.path.join(dst, f))
    json.dump(meta, open(os.path.join(dst, "meta.json"), "w"), indent=1)
    print("filed under", dst, "caught by", meta["caught_by"])


if __name__ == "__main__":
    main()
