#!/usr/bin/env python3
"""Offline calibration of the C04/C05 error bounds (not part of any check): adversarial two-particle inputs.

For a single far-field pair the normalised error of num.errors() is the relative error of that pair's
contribution through the whole P2M-M2M-M2L-L2L-L2P chain; for any input, the normalised (L2) error is at
most the supremum of that quantity over admissible pair geometries.  This script searches that supremum:
pairs of particles in well-separated cells at every interaction level of trees of height 3..7, placed near
the facing faces / edges / corners of their cells, for every kernel configuration.

usage: calibrate_num.py [n_per_height] [seed]
"""
import sys, os, random, math, collections
sys.path.insert(0, os.path.dirname(os.path.abspath(__file__)))
import common, num, ftree


def adversarial(r, H):
    f = ftree.f32
    ncell = 1 << (H - 1)
    lw = 1.0 / ncell
    lvl = r.randint(2, H - 1)                  # level at which the pair interacts
    cw = 1 << (H - 1 - lvl)                    # leaf cells per cell of that level, per dimension
    nl = 1 << lvl
    while True:
        t = [r.randrange(nl) for _ in range(3)]
        off = [r.choice([-3, -2, -2, 2, 2, 3, 0, 1, -1]) for _ in range(3)]
        s = [t[d] + off[d] for d in range(3)]
        if max(abs(o) for o in off) < 2 or any(not (0 <= x < nl) for x in s):
            continue
        if any(abs(s[d] // 2 - t[d] // 2) > 1 for d in range(3)):
            continue
        break
    pts = []
    for cell, sign in ((t, 1), (s, -1)):
        p = []
        for d in range(3):
            o = off[d] * sign
            mode = r.random()
            if mode < 0.6:      # hug the face towards the other cell (or a random face when the offset is 0)
                u = (1 - 1e-3 * r.random()) if (o > 0 or (o == 0 and r.random() < 0.5)) else 1e-3 * r.random()
            elif mode < 0.8:
                u = r.random()
            else:
                u = r.choice([0.5, 0.25, 0.75])
            x = (cell[d] + u) * cw * lw
            x = min(1 - 1e-3 * lw, max(1e-3 * lw, x))
            p.append(f(x))
        pts.append(p + [f(r.choice([-1, 1]) * r.uniform(0.1, 1.0))])
    if pts[0][:3] == pts[1][:3]:
        return None
    return {"center": [0.5, 0.5, 0.5], "width": 1.0, "H": H, "pts": pts, "box": "unit", "pkind": "adversarial"}


def main():
    n = int(sys.argv[1]) if len(sys.argv) > 1 else 400
    seed = int(sys.argv[2]) if len(sys.argv) > 2 else 1
    cfgs = num.ROT + num.UNIF
    binaries, bad = num.build(cfgs)
    r = random.Random(seed)
    inputs = []
    for H in (3, 4, 5, 6, 7):
        for _ in range(n):
            x = adversarial(r, H)
            if x:
                inputs.append(x)
    worst = collections.defaultdict(lambda: [0.0, 0.0, None, None])

    def job(args):
        cfg, chunk = args
        text = ""
        for k, inp in chunk:
            text += "\n".join(num.case_lines("k%d" % k, inp, cfg[2], ["bs=7 mode=0"])) + "\n"
        rc, so, se = common.run_harness(binaries[cfg], text, timeout=3600)
        cases = common.split_cases(so)
        out = []
        for k, inp in chunk:
            if "k%d" % k not in cases:
                continue
            runs = num.parse_runs(cases["k%d" % k], cfg[2])
            if not runs:
                continue
            ep, ef, fin = num.errors(runs[0], num.direct(inp["pts"]))
            out.append((k, ep, ef, fin))
        return cfg, out
    jobs = []
    idx = list(enumerate(inputs))
    for cfg in binaries:
        for i in range(0, len(idx), 100):
            jobs.append((cfg, idx[i:i + 100]))
    for cfg, out in common.run_parallel(job, jobs):
        for k, ep, ef, fin in out:
            if not fin:
                continue
            w = worst[cfg]
            if ep > w[0]:
                w[0], w[2] = ep, k
            if ef > w[1]:
                w[1], w[3] = ef, k
    for cfg in sorted(worst):
        w = worst[cfg]
        print("%-22r worst potential %.3e (H=%d)  worst force %.3e (H=%d)" % (cfg, w[0], inputs[w[2]]["H"], w[1], inputs[w[3]]["H"]))


if __name__ == "__main__":
    main()
