"""Numeric probes of the periodic and target/source variants of the rotation / uniform kernels (C04, C05, C15).
Tests, not proofs: the real kernels are run through harness/h_numx.cpp and compared with an explicit direct sum over the
images the top tree reports."""
import math

import common
import ftree
import gen
import num


def spec_of(xcfg):
    kind, order, real, periodic = xcfg
    return {"name": "h_numx_%s_%d_%s_%d" % (kind, order, real[0], periodic), "sources": ["h_numx.cpp", "mock_gomp.cpp"],
            "flags": ["-DKERNEL_%s" % kind.upper(), "-DKORDER=%d" % order, "-DREAL=%s" % real, "-DPERIODIC=%d" % periodic, "-DUSE_OMP", "-fopenmp"],
            "libs": ["-lfftw3", "-lfftw3f"]}


def build(xcfgs):
    specs = {c: spec_of(c) for c in xcfgs}
    res = common.build_many(list(specs.values()))
    ok, bad = {}, {}
    for c, s in specs.items():
        path, log = res[s["name"]]
        if path:
            ok[c] = path
        else:
            bad[c] = log
    return ok, bad


def gen_case(r, tier, periodic):
    """sources and targets in a cubic box; few particles (the reference is an explicit image sum in Python)"""
    inp = num.gen_input(r, tier)
    inp["H"] = r.choice([2, 3, 3, 4] if periodic else [1, 2, 3, 4, 5])
    nmax = 24 if periodic else 60
    inp["pts"] = inp["pts"][:nmax]
    other = num.gen_input(r, tier)
    f = ftree.f32
    corner = [c - inp["width"] / 2 for c in inp["center"]]
    tg = []
    for _ in range(r.choice([1, 3, 8, 20])):
        u = [r.uniform(0.002, 0.998) for _ in range(3)]
        if r.random() < 0.3 and inp["pts"]:
            # a target next to a face of the box: its neighbours across the periodic boundary matter
            u[r.randrange(3)] = r.choice([0.004, 0.996])
        p = [f(corner[d] + u[d] * inp["width"]) for d in range(3)]
        for d in range(3):
            if not (corner[d] < p[d] < corner[d] + inp["width"]):
                p[d] = f(inp["center"][d])
        tg.append(p + [f(r.uniform(0.05, 1.0))])
    src_pos = set(tuple(p[:3]) for p in inp["pts"])
    inp["tgts"] = [p for p in tg if tuple(p[:3]) not in src_pos]
    return inp


def case_lines(name, inp, real, runs):
    hx = lambda v: "%x" % ftree.bits(v, real)
    lines = ["case " + name, "nbox H=%d %s %s" % (inp["H"], " ".join(hx(c) for c in inp["center"]), hx(inp["width"])),
             "nparts %d %s" % (len(inp["pts"]), " ".join(hx(v) for p in inp["pts"] for v in p)),
             "ntgts %d %s" % (len(inp["tgts"]), " ".join(hx(v) for p in inp["tgts"] for v in p))]
    for rn in runs:
        lines.append("nrunx " + rn)
    lines.append("end")
    return lines


def parse(lines, real):
    """list of runs: (repetition interval or None, {index: [pot, fx, fy, fz]})"""
    runs, cur, last, ri = [], None, -1, None
    for ln in lines:
        if ln.startswith("RI "):
            t = [int(x) for x in ln.split()[1:]]
            ri = (t[0::2], t[1::2])
            cur = None
        elif ln.startswith("NR "):
            t = ln.split()
            i = int(t[1])
            if cur is None or i <= last:
                cur = {}
                runs.append((ri, cur))
                ri = None
            cur[i] = [ftree.unbits(int(x, 16), real) for x in t[2:]]
            last = i
    return runs


def image_sum(targets, sources, width, lo, hi, same):
    """pot_i = sum over images k in [lo, hi]^3 and sources j of q_j / |x_j + k W - x_i| (the zero-shift self term excluded
    when targets and sources are the same set), forces likewise; also the sums of absolute contributions"""
    pot, frc, mag, fmag = [], [], [], []
    shifts = [(kx * width, ky * width, kz * width, kx == 0 and ky == 0 and kz == 0)
              for kx in range(lo[0], hi[0] + 1) for ky in range(lo[1], hi[1] + 1) for kz in range(lo[2], hi[2] + 1)]
    for i, (xi, yi, zi, qi) in enumerate(targets):
        p = m = fm = 0.0
        fx = fy = fz = 0.0
        for sx, sy, sz, zero in shifts:
            for j, (xj, yj, zj, qj) in enumerate(sources):
                if same and zero and i == j:
                    continue
                dx, dy, dz = xj + sx - xi, yj + sy - yi, zj + sz - zi
                r2 = dx * dx + dy * dy + dz * dz
                inv = 1.0 / math.sqrt(r2)
                p += qj * inv
                m += abs(qj) * inv
                k = qi * qj * inv / r2
                fx += dx * k
                fy += dy * k
                fz += dz * k
                fm += abs(k) / inv
        pot.append(p)
        frc.append([fx, fy, fz])
        mag.append(m)
        fmag.append(fm)
    return pot, frc, mag, fmag
