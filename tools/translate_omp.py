#!/usr/bin/env python3
"""Translators T2 + T4 (DESIGN.md §5): regenerate lean/Tbfmm/Generated/OmpTasks.lean from
  * every `#pragma omp task` of src/algorithms/openmp/*.hpp  (clauses, body, enclosing lambda), and
  * the accessor footprint of every wrapper of src/algorithms/sequential/tbfgroupkernelinterface.hpp.
Fails closed: a pragma / wrapper that is not understood raises TranslateError."""
import os
import re
import sys

sys.path.insert(0, os.path.dirname(os.path.abspath(__file__)))
import common  # noqa: E402

OMP_FILES = ["src/algorithms/openmp/tbfopenmpalgorithm.hpp", "src/algorithms/openmp/tbfopenmpalgorithmtsm.hpp"]
IFACE = "src/algorithms/sequential/tbfgroupkernelinterface.hpp"
KINDS = {"getDataPtr": "data", "getMultipolePtr": "multipole", "getLocalPtr": "local", "getRhsPtr": "rhs"}
ACCESSOR_KIND = {"getCellMultipole": "multipole", "getCellLocal": "local", "getParticleRhs": "rhs", "getParticleData": "data",
                 "getParticleIndexes": "data", "getLeafSymbData": "data", "getNbParticlesInLeaf": "data"}
KEYWORDS = {"delete", "std", "move", "const", "auto", "return", "if", "else", "for", "while", "new", "this", "long", "int", "true", "false"}
STATIC_FUNCS = {"omp_get_thread_num"}


class TranslateError(Exception):
    pass


def matching_brace(text, start):
    depth = 0
    for i in range(start, len(text)):
        if text[i] == "{":
            depth += 1
        elif text[i] == "}":
            depth -= 1
            if depth == 0:
                return i
    raise TranslateError("unbalanced braces")


def enclosing_function(text, pos):
    """name of the innermost enclosing member function and whether `pos` is inside a lambda body"""
    in_lambda = False
    # lambdas: '[&](' ... '){' whose body encloses pos
    for m in re.finditer(r"\[[&=]?[^\]]*\]\s*\(", text[:pos]):
        par = text.find("(", m.end() - 1)
        depth, i = 0, par
        while i < len(text):
            if text[i] == "(":
                depth += 1
            elif text[i] == ")":
                depth -= 1
                if depth == 0:
                    break
            i += 1
        b = text.find("{", i)
        if b < 0 or text[i + 1:b].strip() not in ("", "mutable"):
            continue
        e = matching_brace(text, b)
        if b < pos < e:
            in_lambda = True
    fn = None
    for m in re.finditer(r"^\s*void\s+(\w+)\s*\(\s*TreeClass\s*&\s*\w+\s*\)\s*\{", text, re.M):
        b = text.find("{", m.end() - 1)
        e = matching_brace(text, b)
        if b < pos < e:
            fn = m.group(1)
    return fn, in_lambda


def clause(pragma, name):
    out = []
    for m in re.finditer(r"\b%s\s*\(" % re.escape(name), pragma):
        depth, i = 0, m.end() - 1
        while i < len(pragma):
            if pragma[i] == "(":
                depth += 1
            elif pragma[i] == ")":
                depth -= 1
                if depth == 0:
                    break
            i += 1
        out.append(pragma[m.end():i])
    return out


def resolve_buffer(text, pos, item):
    """ptr_X[0] -> (group expression, buffer kind) through its two defining declarations above `pos`"""
    m = re.fullmatch(r"\s*(\w+)\s*\[\s*0\s*\]\s*", item)
    if not m:
        raise TranslateError("depend item not of the form ptr[0]: %r" % item)
    ptr = m.group(1)
    before = text[:pos]
    d = list(re.finditer(r"\b%s\s*=\s*reinterpret_cast<[^>]*>\s*\(\s*&\s*(\w+)\s*\[\s*0\s*\]\s*\)\s*;" % re.escape(ptr), before))
    if not d:
        raise TranslateError("cannot resolve %s" % ptr)
    raw = d[-1].group(1)
    d2 = list(re.finditer(r"\b%s\s*=\s*(\w+)\s*(->|\.)\s*(get\w+Ptr)\s*\(\s*\)\s*;" % re.escape(raw), before))
    if not d2:
        raise TranslateError("cannot resolve %s" % raw)
    grp, acc = d2[-1].group(1), d2[-1].group(3)
    if acc not in KINDS:
        raise TranslateError("unknown buffer accessor %s" % acc)
    return grp, KINDS[acc]


def group_aliases(text, pos):
    """pointer variables that alias a group object: `auto x = &y;` / `&(*it)` -> x stands for y"""
    alias = {}
    for m in re.finditer(r"\b(?:const\s+)?auto\s+(\w+)\s*=\s*&\s*\(?\s*\*?\s*(\w+)\s*\)?\s*;", text[:pos]):
        alias[m.group(1)] = m.group(2)
    return alias


def parse_tasks():
    tasks = []
    for rel in OMP_FILES:
        path = os.path.join(common.REPO, rel)
        text = open(path).read()
        for m in re.finditer(r"^#pragma omp task\b(.*)$", text, re.M):
            pragma = m.group(1)
            line = text.count("\n", 0, m.start()) + 1
            b = text.find("{", m.end())
            if text[m.end():b].strip():
                raise TranslateError("%s:%d task body is not a braced block" % (rel, line))
            e = matching_brace(text, b)
            body = text[b + 1:e]
            fn, in_lambda = enclosing_function(text, m.start())
            if fn is None:
                raise TranslateError("%s:%d no enclosing member function" % (rel, line))
            deps_in, deps_com = [], []
            for d in clause(pragma, "depend"):
                kind, items = d.split(":", 1)
                kind = kind.strip()
                lst = [resolve_buffer(text, m.start(), it) for it in items.split(",")]
                if kind == "in":
                    deps_in += lst
                elif kind in ("commute", "inout", "mutexinoutset", "out"):
                    deps_com += lst
                else:
                    raise TranslateError("%s:%d unknown dependence type %s" % (rel, line, kind))
            fp = [x.strip() for c in clause(pragma, "firstprivate") for x in c.split(",") if x.strip()]
            default = (clause(pragma, "default") or ["shared"])[0].strip()
            # wrapper calls in the body
            calls = []
            for cm in re.finditer(r"\bkernelWrapper(?:Ptr)?\s*(?:\.|->)\s*(\w+)\s*\(", body):
                depth, i = 0, cm.end() - 1
                while i < len(body):
                    if body[i] == "(":
                        depth += 1
                    elif body[i] == ")":
                        depth -= 1
                        if depth == 0:
                            break
                    i += 1
                args, cur, depth = [], "", 0
                for ch in body[cm.end():i]:
                    if ch in "([":
                        depth += 1
                    if ch in ")]":
                        depth -= 1
                    if ch == "," and depth == 0:
                        args.append(cur.strip())
                        cur = ""
                    else:
                        cur += ch
                args.append(cur.strip())
                calls.append((cm.group(1), args))
            if not calls:
                raise TranslateError("%s:%d no kernelWrapper call in the task body" % (rel, line))
            # identifiers referenced by the body
            refs = set()
            for im in re.finditer(r"(?<![\w\.>:])([A-Za-z_]\w*)\b", body):
                name = im.group(1)
                prev = body[:im.start()].rstrip()
                if prev.endswith(".") or prev.endswith("->") or prev.endswith("::"):
                    continue
                if name in KEYWORDS or name in STATIC_FUNCS:
                    continue
                refs.add(name)
            tasks.append({"file": os.path.basename(rel), "line": line, "fn": fn, "in_lambda": in_lambda, "default": default,
                          "reads": deps_in, "commutes": deps_com, "firstprivate": fp, "refs": sorted(refs), "calls": calls,
                          "alias": group_aliases(text, m.start())})
    if len(tasks) < 10:
        raise TranslateError("only %d task pragmas recognised" % len(tasks))
    return tasks


def parse_footprints():
    """wrapper -> list of (parameter position among the call arguments, buffer kind, 'r'|'w')"""
    text = open(os.path.join(common.REPO, IFACE)).read()
    fps = {}
    for m in re.finditer(r"void\s+(\w+)\s*\(([^)]*)\)\s*const\s*\{", text):
        name = m.group(1)
        params = []
        for p in m.group(2).split(","):
            p = " ".join(p.split())
            pm = re.match(r"(const\s+)?([\w:<>\s]+?)\s*&?\s*(\w+)$", p)
            if not pm:
                raise TranslateError("cannot parse parameter %r of %s" % (p, name))
            params.append((pm.group(3), bool(pm.group(1))))
        b = text.find("{", m.end() - 1)
        body = text[b:matching_brace(text, b)]
        acc = set()
        for pi, (pname, is_const) in enumerate(params):
            for am in re.finditer(r"(TbfUtils::make_const\(\s*%s\s*\)|\b%s)\s*\.\s*(\w+)\s*\(" % (re.escape(pname), re.escape(pname)), body):
                a = am.group(2)
                if a not in ACCESSOR_KIND:
                    continue
                if re.search(r"decltype\s*\(\s*$", body[max(0, am.start() - 40):am.start()]):
                    continue    # unevaluated operand
                kind = ACCESSOR_KIND[a]
                write = (not is_const) and not am.group(1).startswith("TbfUtils::make_const") and a in ("getCellMultipole", "getCellLocal", "getParticleRhs")
                if write:
                    # how is the returned reference bound?  a const binding is a read
                    stmt_start = max(body.rfind(";", 0, am.start()), body.rfind("{", 0, am.start()), body.rfind("}", 0, am.start())) + 1
                    prefix = body[stmt_start:am.start()]
                    eb = re.search(r"(\w+)\s*\.\s*emplace_back\s*\(\s*$", prefix)
                    if eb:
                        decl = re.search(r"std::vector<\s*std::reference_wrapper<\s*(const\s+)?[\w:]+\s*>\s*>\s*%s\s*;" % re.escape(eb.group(1)), body)
                        if decl is None:
                            raise TranslateError("cannot find the declaration of container %s in %s" % (eb.group(1), name))
                        if decl.group(1):
                            write = False
                    elif re.match(r"\s*const\s+auto\s*&", prefix):
                        write = False
                acc.add((pi, kind, "w" if write else "r"))
        # a buffer that is written is not additionally listed as read
        acc = {x for x in acc if not (x[2] == "r" and (x[0], x[1], "w") in acc)}
        fps[name] = sorted(acc)
    for need in ("P2M", "M2M", "M2LInGroup", "M2LBetweenGroups", "L2L", "L2P", "P2PInGroup", "P2PInner", "P2PBetweenGroups", "P2PBetweenGroupsTsm"):
        if need not in fps:
            raise TranslateError("wrapper %s not found" % need)
    return fps


def lean_str(s):
    return '"' + s.replace("\\", "\\\\").replace('"', '\\"') + '"'


def root(alias, g):
    seen = set()
    while g in alias and g not in seen:
        seen.add(g)
        g = alias[g]
    return g


def arg_group(arg):
    a = arg.strip()
    m = re.fullmatch(r"\*\s*(\w+)", a)
    if m:
        return m.group(1)
    m = re.fullmatch(r"(\w+)", a)
    if m:
        return m.group(1)
    return None


def generate():
    tasks = parse_tasks()
    fps = parse_footprints()
    out = ["import Tbfmm.Model.Tasks", "/-! GENERATED by tools/translate_omp.py from /repo/src — do not edit. -/", "namespace Tbfmm.Generated", "open Tbfmm", ""]
    out.append("def wrapperFootprints : List (String × List (Nat × String × Bool)) := [")
    rows = []
    for name, acc in sorted(fps.items()):
        rows.append("  (%s, [%s])" % (lean_str(name), ", ".join("(%d, %s, %s)" % (pi, lean_str(k), "true" if rw == "w" else "false") for pi, k, rw in acc)))
    out.append(",\n".join(rows) + "]")
    out.append("")
    out.append("def ompTasks : List OmpTask := [")
    rows = []
    for t in tasks:
        calls = []
        for name, args in t["calls"]:
            groups = [root(t["alias"], arg_group(a)) if arg_group(a) else "" for a in args]
            calls.append("(%s, [%s])" % (lean_str(name), ", ".join(lean_str(g) for g in groups)))
        rows.append("  { file := %s, line := %d, fn := %s, inLambda := %s, defaultShared := %s,\n    reads := [%s], commutes := [%s],\n    firstprivate := [%s],\n    refs := [%s],\n    calls := [%s] }" % (
            lean_str(t["file"]), t["line"], lean_str(t["fn"]), "true" if t["in_lambda"] else "false", "true" if t["default"] == "shared" else "false",
            ", ".join("(%s, %s)" % (lean_str(root(t["alias"], g)), lean_str(k)) for g, k in t["reads"]),
            ", ".join("(%s, %s)" % (lean_str(root(t["alias"], g)), lean_str(k)) for g, k in t["commutes"]),
            ", ".join(lean_str(x) for x in t["firstprivate"]),
            ", ".join(lean_str(x) for x in t["refs"]),
            ", ".join(calls)))
    out.append(",\n".join(rows) + "]")
    out.append("")
    out.append("end Tbfmm.Generated")
    return "\n".join(out) + "\n", tasks, fps


def main():
    text, tasks, fps = generate()
    path = os.path.join(common.LEAN, "Tbfmm", "Generated", "OmpTasks.lean")
    old = open(path).read() if os.path.exists(path) else None
    if old != text:
        with open(path, "w") as f:
            f.write(text)
    return tasks, fps


if __name__ == "__main__":
    tasks, fps = main()
    for t in tasks:
        print(t["file"], t["line"], t["fn"], "lambda" if t["in_lambda"] else "", t["reads"], t["commutes"], t["firstprivate"], t["refs"], [c[0] for c in t["calls"]])
    for k, v in fps.items():
        print(k, v)
