#!/usr/bin/env python3
"""Translators T2 + T4 + T6 (DESIGN.md §5): regenerate lean/Tbfmm/Generated/OmpTasks.lean from
  * every `#pragma omp task` of src/algorithms/openmp/*.hpp  (clauses, body, enclosing lambda),
  * the accessor footprint of every wrapper of src/algorithms/sequential/tbfgroupkernelinterface.hpp,
  * every `runtime.task(...)` of the two Specx CPU executors (declared accesses, capture list, body), and
  * every `starpu_insert_task(...)` of the two StarPU CPU executors with its codelet, its callback and the handle builders.
Fails closed: a pragma / wrapper that is not understood raises TranslateError."""
import os
import re
import sys

sys.path.insert(0, os.path.dirname(os.path.abspath(__file__)))
import common  # noqa: E402

OMP_FILES = ["src/algorithms/openmp/tbfopenmpalgorithm.hpp", "src/algorithms/openmp/tbfopenmpalgorithmtsm.hpp"]
IFACE = "src/algorithms/sequential/tbfgroupkernelinterface.hpp"
KINDS = {"getDataPtr": "data", "getMultipolePtr": "multipole", "getLocalPtr": "local", "getRhsPtr": "rhs"}
ACCESSOR_KIND = {"getCellMultipole": "multipole", "getCellLocal": "local", "getParticleRhs": "rhs", "getParticleData": "data",
                 "getParticleIndexes": "data", "getLeafSymbData": "data", "getNbParticlesInLeaf": "data"}
KEYWORDS = {"delete", "std", "move", "const", "auto", "return", "if", "else", "for", "while", "new", "this", "long", "int", "true", "false"}
STATIC_FUNCS = {"omp_get_thread_num", "SpUtils"}
SPECX_FILES = ["src/algorithms/smspecx/tbfsmspecxalgorithm.hpp", "src/algorithms/smspecx/tbfsmspecxalgorithmtsm.hpp"]


class TranslateError(Exception):
    pass


def matching_brace(text, start):
    depth = 0
    for i in range(start, len(text)):
        if text[i] == "{":
            depth += 1
        elif text[i] == "}":
            depth -= 1
            if depth == 0:
                return i
    raise TranslateError("unbalanced braces")


def enclosing_function(text, pos):
    """name of the innermost enclosing member function and whether `pos` is inside a lambda body"""
    in_lambda = False
    # lambdas: '[&](' ... '){' whose body encloses pos
    for m in re.finditer(r"\[[&=]?[^\]]*\]\s*\(", text[:pos]):
        par = text.find("(", m.end() - 1)
        depth, i = 0, par
        while i < len(text):
            if text[i] == "(":
                depth += 1
            elif text[i] == ")":
                depth -= 1
                if depth == 0:
                    break
            i += 1
        b = text.find("{", i)
        if b < 0 or text[i + 1:b].strip() not in ("", "mutable"):
            continue
        e = matching_brace(text, b)
        if b < pos < e:
            in_lambda = True
    fn = None
    for m in re.finditer(r"^\s*void\s+(\w+)\s*\(\s*TreeClass\s*&\s*\w+\s*\)\s*\{", text, re.M):
        b = text.find("{", m.end() - 1)
        e = matching_brace(text, b)
        if b < pos < e:
            fn = m.group(1)
    return fn, in_lambda


def clause(pragma, name):
    out = []
    for m in re.finditer(r"\b%s\s*\(" % re.escape(name), pragma):
        depth, i = 0, m.end() - 1
        while i < len(pragma):
            if pragma[i] == "(":
                depth += 1
            elif pragma[i] == ")":
                depth -= 1
                if depth == 0:
                    break
            i += 1
        out.append(pragma[m.end():i])
    return out


def resolve_buffer(text, pos, item):
    """ptr_X[0] -> (group expression, buffer kind) through its two defining declarations above `pos`"""
    m = re.fullmatch(r"\s*(\w+)\s*\[\s*0\s*\]\s*", item)
    if not m:
        raise TranslateError("depend item not of the form ptr[0]: %r" % item)
    ptr = m.group(1)
    before = text[:pos]
    d = list(re.finditer(r"\b%s\s*=\s*reinterpret_cast<[^>]*>\s*\(\s*&\s*(\w+)\s*\[\s*0\s*\]\s*\)\s*;" % re.escape(ptr), before))
    if not d:
        raise TranslateError("cannot resolve %s" % ptr)
    raw = d[-1].group(1)
    d2 = list(re.finditer(r"\b%s\s*=\s*(\w+)\s*(->|\.)\s*(get\w+Ptr)\s*\(\s*\)\s*;" % re.escape(raw), before))
    if not d2:
        raise TranslateError("cannot resolve %s" % raw)
    grp, acc = d2[-1].group(1), d2[-1].group(3)
    if acc not in KINDS:
        raise TranslateError("unknown buffer accessor %s" % acc)
    return grp, KINDS[acc]


def group_aliases(text, pos):
    """pointer variables that alias a group object: `auto x = &y;` / `&(*it)` -> x stands for y"""
    alias = {}
    for m in re.finditer(r"\b(?:const\s+)?auto\s+(\w+)\s*=\s*&\s*\(?\s*\*?\s*(\w+)\s*\)?\s*;", text[:pos]):
        alias[m.group(1)] = m.group(2)
    return alias


def parse_tasks():
    tasks = []
    for rel in OMP_FILES:
        path = os.path.join(common.REPO, rel)
        text = open(path).read()
        for m in re.finditer(r"^#pragma omp task\b(.*)$", text, re.M):
            pragma = m.group(1)
            line = text.count("\n", 0, m.start()) + 1
            b = text.find("{", m.end())
            if text[m.end():b].strip():
                raise TranslateError("%s:%d task body is not a braced block" % (rel, line))
            e = matching_brace(text, b)
            body = text[b + 1:e]
            fn, in_lambda = enclosing_function(text, m.start())
            if fn is None:
                raise TranslateError("%s:%d no enclosing member function" % (rel, line))
            deps_in, deps_com = [], []
            for d in clause(pragma, "depend"):
                kind, items = d.split(":", 1)
                kind = kind.strip()
                lst = [resolve_buffer(text, m.start(), it) for it in items.split(",")]
                if kind == "in":
                    deps_in += lst
                elif kind in ("commute", "inout", "mutexinoutset", "out"):
                    deps_com += lst
                else:
                    raise TranslateError("%s:%d unknown dependence type %s" % (rel, line, kind))
            fp = [x.strip() for c in clause(pragma, "firstprivate") for x in c.split(",") if x.strip()]
            default = (clause(pragma, "default") or ["shared"])[0].strip()
            # wrapper calls in the body
            calls = []
            for cm in re.finditer(r"\bkernelWrapper(?:Ptr)?\s*(?:\.|->)\s*(\w+)\s*\(", body):
                depth, i = 0, cm.end() - 1
                while i < len(body):
                    if body[i] == "(":
                        depth += 1
                    elif body[i] == ")":
                        depth -= 1
                        if depth == 0:
                            break
                    i += 1
                args, cur, depth = [], "", 0
                for ch in body[cm.end():i]:
                    if ch in "([":
                        depth += 1
                    if ch in ")]":
                        depth -= 1
                    if ch == "," and depth == 0:
                        args.append(cur.strip())
                        cur = ""
                    else:
                        cur += ch
                args.append(cur.strip())
                calls.append((cm.group(1), args))
            if not calls:
                raise TranslateError("%s:%d no kernelWrapper call in the task body" % (rel, line))
            # identifiers referenced by the body
            refs = set()
            for im in re.finditer(r"(?<![\w\.>:])([A-Za-z_]\w*)\b", body):
                name = im.group(1)
                prev = body[:im.start()].rstrip()
                if prev.endswith(".") or prev.endswith("->") or prev.endswith("::"):
                    continue
                if name in KEYWORDS or name in STATIC_FUNCS:
                    continue
                refs.add(name)
            tasks.append({"file": os.path.basename(rel), "line": line, "fn": fn, "in_lambda": in_lambda, "default": default,
                          "reads": deps_in, "commutes": deps_com, "firstprivate": fp, "refs": sorted(refs), "calls": calls,
                          "alias": group_aliases(text, m.start())})
    if len(tasks) < 10:
        raise TranslateError("only %d task pragmas recognised" % len(tasks))
    return tasks


def balanced(text, start, open_ch="(", close_ch=")"):
    """index of the bracket closing the one at `start`"""
    depth = 0
    for i in range(start, len(text)):
        if text[i] == open_ch:
            depth += 1
        elif text[i] == close_ch:
            depth -= 1
            if depth == 0:
                return i
    raise TranslateError("unbalanced %s%s" % (open_ch, close_ch))


def split_top(text):
    """split at commas that are outside (), [], {}"""
    out, cur, depth = [], "", 0
    for ch in text:
        if ch in "([{":
            depth += 1
        elif ch in ")]}":
            depth -= 1
        if ch == "," and depth == 0:
            out.append(cur.strip())
            cur = ""
        else:
            cur += ch
    if cur.strip():
        out.append(cur.strip())
    return out


def body_calls(body):
    calls = []
    for cm in re.finditer(r"\bkernelWrapper(?:Ptr)?\s*(?:\.|->)\s*(\w+)\s*\(", body):
        i = balanced(body, cm.end() - 1)
        calls.append((cm.group(1), split_top(body[cm.end():i])))
    return calls


def body_refs(body):
    refs = set()
    for im in re.finditer(r"(?<![\w\.>:])([A-Za-z_]\w*)\b", body):
        name = im.group(1)
        prev = body[:im.start()].rstrip()
        if prev.endswith(".") or prev.endswith("->") or prev.endswith("::"):
            continue
        if name in KEYWORDS or name in STATIC_FUNCS:
            continue
        refs.add(name)
    return refs


def reference_bound(text, pos, name):
    """is `name`, as visible at `pos`, a C++ reference bound to an object owned by the tree?  True for
    `auto& name = *iterator;` / `const auto& name = *iterator;` and for a reference parameter of the enclosing callback
    of TbfMapIndexesAndBlocks (which receives elements of the group container)."""
    before = text[:pos]
    decls = list(re.finditer(r"(?:const\s+)?auto\s*(&?)\s*%s\s*(=\s*([^;]*);|[,)])" % re.escape(name), before))
    if not decls:
        return False
    d = decls[-1]
    if d.group(1) != "&":
        return False
    if d.group(3) is not None:                       # local reference: must be bound to a dereferenced iterator
        return re.fullmatch(r"\*\s*\w+", d.group(3).strip()) is not None
    return True                                      # reference parameter of the enclosing callback


def parse_specx_tasks():
    tasks = []
    for rel in SPECX_FILES:
        text = open(os.path.join(common.REPO, rel)).read()
        for m in re.finditer(r"\bruntime\s*\.\s*task\s*\(", text):
            line = text.count("\n", 0, m.start()) + 1
            end = balanced(text, m.end() - 1)
            args = split_top(text[m.end():end])
            fn, in_lambda = enclosing_function_specx(text, m.start())
            if fn is None:
                raise TranslateError("%s:%d no enclosing member function" % (rel, line))
            if not args or not args[-1].startswith("["):
                raise TranslateError("%s:%d last argument of runtime.task is not a lambda" % (rel, line))
            reads, commutes, modes = [], [], []
            for a in args[:-1]:
                if re.match(r"SpPriority\s*\(", a):
                    continue
                am = re.fullmatch(r"(SpRead|SpWrite|SpCommutativeWrite)\s*\(\s*\*\s*(\w+)\s*(?:\.|->)\s*(get\w+Ptr)\s*\(\s*\)\s*\)", a)
                if not am or am.group(3) not in KINDS:
                    raise TranslateError("%s:%d cannot read the access declaration %r" % (rel, line, a))
                item = (am.group(2), KINDS[am.group(3)])
                if am.group(1) == "SpRead":
                    reads.append(item)
                    modes.append(False)
                else:
                    commutes.append(item)
                    modes.append(True)
            lam = args[-1]
            ce = balanced(lam, 0, "[", "]")
            caps = split_top(lam[1:ce])
            po = lam.find("(", ce)
            if lam[ce + 1:po].strip():
                raise TranslateError("%s:%d unexpected text between capture list and parameters" % (rel, line))
            pe = balanced(lam, po)
            params = split_top(lam[po + 1:pe])
            bo = lam.find("{", pe)
            if lam[pe + 1:bo].strip() not in ("", "mutable"):
                raise TranslateError("%s:%d unexpected lambda declarator" % (rel, line))
            body = lam[bo + 1:balanced(lam, bo, "{", "}")]
            by_value, by_ref, this_cap, default_ref = [], [], False, False
            for c in caps:
                if c == "this":
                    this_cap = True
                elif c == "&":
                    default_ref = True
                elif c == "=":
                    raise TranslateError("%s:%d default by-copy capture is not modelled" % (rel, line))
                elif c.startswith("&"):
                    by_ref.append(c[1:].strip())
                else:
                    by_value.append(c.split("=")[0].strip())
            param_const = []
            for prm in params:
                pm = re.fullmatch(r"(const\s+)?unsigned\s+char\s*&\s*\w*", prm)
                if not pm:
                    raise TranslateError("%s:%d unexpected task parameter %r" % (rel, line, prm))
                param_const.append(bool(pm.group(1)))
            calls = body_calls(body)
            if not calls:
                raise TranslateError("%s:%d no kernelWrapper call in the task body" % (rel, line))
            refs = body_refs(body)
            tasks.append({"file": os.path.basename(rel), "line": line, "fn": fn, "in_lambda": in_lambda, "reads": reads, "commutes": commutes,
                          "modes": modes, "param_const": param_const, "by_value": by_value, "by_ref": by_ref, "this": this_cap, "default_ref": default_ref,
                          "ref_decl": [n for n in by_ref if reference_bound(text, m.start(), n)], "refs": sorted(refs), "calls": calls})
    if len(tasks) < 12:
        raise TranslateError("only %d Specx task submissions recognised" % len(tasks))
    return tasks


def enclosing_function_specx(text, pos):
    fn = None
    for m in re.finditer(r"^\s*void\s+(\w+)\s*\(\s*SpTaskGraph<[^>]*>\s*&\s*\w+\s*,\s*TreeClass\s*&\s*\w+\s*\)\s*\{", text, re.M):
        b = text.find("{", m.end() - 1)
        e = matching_brace(text, b)
        if b < pos < e:
            fn = m.group(1)
    _, in_lambda = enclosing_function(text, pos)
    return fn, in_lambda


STARPU_DIR = "src/algorithms/smstarpu"
STARPU_FILES = ["tbfsmstarpualgorithm.hpp", "tbfsmstarpualgorithmtsm.hpp"]
STARPU_PHASES = ("P2M", "M2M", "M2L", "L2L", "L2P", "P2P")


def norm_type(t):
    t = " ".join(t.replace("typename", "").split())
    if t.endswith("*"):
        return "ptr"
    return t


def starpu_mode(expr):
    """True for a write access, False for a read"""
    e = expr.replace(" ", "")
    if e == "STARPU_R":
        return False
    if e in ("STARPU_RW", "STARPU_W", "starpu_data_access_mode(STARPU_RW|STARPU_COMMUTE)", "starpu_data_access_mode(STARPU_COMMUTE|STARPU_RW)"):
        return True
    raise TranslateError("unknown StarPU access mode %r" % expr)


def parse_starpu_builders():
    """(builder class, function) -> buffer kind of every slot of the handle arrays it returns"""
    text = open(os.path.join(common.REPO, STARPU_DIR, "tbfsmstarpuutils.hpp")).read()
    out = {}
    classes = [(m.start(), m.group(1)) for m in re.finditer(r"^class\s+(\w+)\s*\{", text, re.M)]
    for m in re.finditer(r"static\s+auto\s+(Get\w+Handles)\s*\([^)]*\)\s*\{", text):
        cls = [c for p, c in classes if p < m.start()][-1]
        b = text.find("{", m.end() - 1)
        body = text[b:matching_brace(text, b)]
        kinds = {}
        for r in re.finditer(r"starpu_variable_data_register\s*\(\s*&\s*(\w+)\s*,\s*STARPU_MAIN_RAM\s*,\s*uintptr_t\s*\(\s*\w+\s*->\s*(get\w+Ptr)\s*\(\s*\)\s*\)", body):
            if r.group(2) not in KINDS:
                raise TranslateError("unknown buffer accessor %s in %s" % (r.group(2), m.group(1)))
            kinds[r.group(1)] = KINDS[r.group(2)]
        arr = re.findall(r"std::array<\s*starpu_data_handle_t\s*,\s*(\d+)\s*>\s*\w+\s*\{([^}]*)\}", body)
        if len(arr) != 1:
            raise TranslateError("cannot find the handle array of %s" % m.group(1))
        names = [x.strip() for x in arr[0][1].split(",")]
        if len(names) != int(arr[0][0]) or any(n not in kinds for n in names):
            raise TranslateError("cannot resolve the handle array of %s" % m.group(1))
        out[(cls, m.group(1))] = [kinds[n] for n in names]
    if len(out) < 6:
        raise TranslateError("only %d StarPU handle builders recognised" % len(out))
    return out


def parse_starpu_callbacks():
    text = open(os.path.join(common.REPO, STARPU_DIR, "tbfsmstarpucallbacks.hpp")).read()
    cbs = []
    for m in re.finditer(r"static\s+void\s+(\w+)\s*\(\s*void\s*\*\s*buffers\s*\[\s*\]\s*,\s*void\s*\*\s*cl_arg\s*\)\s*\{", text):
        b = text.find("{", m.end() - 1)
        body = text[b + 1:matching_brace(text, b)]
        um = re.search(r"starpu_codelet_unpack_args\s*\(\s*cl_arg\s*,([^;]*)\)\s*;", body)
        if not um:
            raise TranslateError("callback %s does not unpack its arguments" % m.group(1))
        unpack = [x.strip().lstrip("&").strip() for x in um.group(1).split(",")]
        types = []
        for n in unpack:
            d = re.search(r"^\s*([\w:\s\*]+?)\s*\b%s\s*;" % re.escape(n), body, re.M)
            if not d:
                raise TranslateError("callback %s: no declaration of %s" % (m.group(1), n))
            types.append(norm_type(d.group(1)))
        bufvar = {}
        for r in re.finditer(r"unsigned\s+char\s*\*\s*(\w+)\s*=\s*\(\s*unsigned\s+char\s*\*\s*\)\s*STARPU_VARIABLE_GET_PTR\s*\(\s*buffers\s*\[\s*(\d+)\s*\]\s*\)\s*;", body):
            bufvar[r.group(1)] = int(r.group(2))
        sizevar = {}
        for r in re.finditer(r"size_t\s+(\w+)\s*=\s*STARPU_VARIABLE_GET_ELEMSIZE\s*\(\s*buffers\s*\[\s*(\d+)\s*\]\s*\)\s*;", body):
            sizevar[r.group(1)] = int(r.group(2))
        containers = []
        for r in re.finditer(r"(?:const\s+)?\b(\w*ContainerClass\w*)\s+(\w+)\s*\(([^;]*)\)\s*;", body):
            args = split_top(r.group(3))
            layout = ["data", "multipole", "local"] if r.group(1).startswith("Cell") else ["data", "rhs"] if r.group(1).startswith("Particle") else None
            if layout is None or len(args) != 2 * len(layout):
                raise TranslateError("callback %s: cannot read the construction of %s" % (m.group(1), r.group(2)))
            slots = []
            for k, kind in enumerate(layout):
                p, sz = args[2 * k], args[2 * k + 1]
                if p == "nullptr":
                    if sz != "0":
                        raise TranslateError("callback %s: %s has a null %s buffer with a size" % (m.group(1), r.group(2), kind))
                    continue
                if p not in bufvar or sizevar.get(sz) != bufvar[p]:
                    raise TranslateError("callback %s: %s is not built from one StarPU buffer and its size (%s, %s)" % (m.group(1), r.group(2), p, sz))
                slots.append((kind, bufvar[p]))
            containers.append((r.group(2), slots))
        calls = []
        for cm in re.finditer(r"\bthisptr\s*->\s*kernelWrapper\s*\.\s*(\w+)\s*\(", body):
            i = balanced(body, cm.end() - 1)
            calls.append((cm.group(1), [arg_group(a) or "" for a in split_top(body[cm.end():i])]))
        if not calls:
            raise TranslateError("callback %s calls no wrapper" % m.group(1))
        cbs.append({"name": m.group(1), "unpack_types": types, "containers": containers, "calls": calls})
    if len(cbs) < 10:
        raise TranslateError("only %d StarPU callbacks recognised" % len(cbs))
    return cbs


def classify_value(text, pos, var):
    before = text[:pos]
    d = list(re.finditer(r"([\w:\s\*]+?)\b%s\s*=\s*([^;]*);" % re.escape(var), before))
    if var == "idxLevel":
        return "scalar"
    if not d:
        return "unknown"
    init = d[-1].group(2).strip()
    if init == "this":
        return "this"
    if re.fullmatch(r"inTree\s*\.\s*get\w+\s*\([^()]*\)\s*\[[^\]]*\]\s*\.\s*get\w+Ptr\s*\(\s*\)", init):
        return "treeptr"
    if re.fullmatch(r"inTree\s*\.\s*get\w+\s*\([^()]*\)\s*\[[^\]]*\]\s*\.\s*get\w+Size\s*\(\s*\)", init):
        return "scalar"
    if re.fullmatch(r"&\s*vecIndexBuffer\s*\.\s*back\s*\(\s*\)", init):
        return "indexbuf"
    return "unknown"


def parse_starpu_files():
    builders = parse_starpu_builders()
    files, codelets, tasks, layouts = [], [], [], []
    for base in STARPU_FILES:
        text = open(os.path.join(common.REPO, STARPU_DIR, base)).read()
        # execute(): handle containers and which phase receives which
        em = re.search(r"void\s+execute\s*\(\s*TreeClass\s*&\s*inTree[^)]*\)\s*\{", text)
        if not em:
            raise TranslateError("%s: no execute()" % base)
        eb = text.find("{", em.end() - 1)
        ebody = text[eb:matching_brace(text, eb)]
        hv = {}
        for r in re.finditer(r"auto\s+(\w+)\s*=\s*(\w+)::(Get\w+Handles)\s*\(", ebody):
            if (r.group(2), r.group(3)) not in builders:
                raise TranslateError("%s: unknown handle builder %s::%s" % (base, r.group(2), r.group(3)))
            hv[r.group(1)] = builders[(r.group(2), r.group(3))]
        wait = ebody.find("starpu_task_wait_for_all")
        clear = [r.start() for r in re.finditer(r"vecIndexBuffer\s*\.\s*(clear|pop_\w+|erase|resize)\s*\(", text)]
        cleared_after_wait = wait >= 0 and all(eb + wait < c < eb + len(ebody) for c in clear)
        stable = re.search(r"std::list<\s*VecOfIndexes\s*>\s*vecIndexBuffer\s*;", text) is not None
        files.append({"file": base, "stable": stable, "cleared_after_wait": cleared_after_wait})
        for ph in STARPU_PHASES:
            calls = re.findall(r"\b%s\s*\(\s*inTree\s*((?:,\s*\w+\s*)*)\)\s*;" % ph, ebody)
            dm = re.search(r"void\s+%s\s*\(\s*TreeClass\s*&\s*inTree\s*((?:,\s*\w+\s*&\s*\w+\s*)*)\)\s*\{" % ph, text)
            if len(calls) != 1 or not dm:
                raise TranslateError("%s: cannot relate execute() to %s" % (base, ph))
            actual = [a.strip() for a in calls[0].split(",") if a.strip()]
            formal = [a.split("&")[1].strip() for a in dm.group(1).split(",") if a.strip()]
            if len(actual) != len(formal) or any(a not in hv for a in actual):
                raise TranslateError("%s: cannot resolve the handle arguments of %s" % (base, ph))
            for a, f in zip(actual, formal):
                layouts.append(((base, ph, f), hv[a]))
        # codelets
        cl = {}
        for r in re.finditer(r"\b(\w+)\s*\.\s*cpu_funcs\s*\[\s*0\s*\]\s*=\s*&\s*TbfSmStarpuCallbacks::(\w+)\s*<", text):
            cl[r.group(1)] = {"file": base, "name": r.group(1), "callback": r.group(2), "modes": {}, "nbuffers": None}
        for r in re.finditer(r"\b(\w+)\s*\.\s*nbuffers\s*=\s*(\d+)\s*;", text):
            if r.group(1) in cl:
                cl[r.group(1)]["nbuffers"] = int(r.group(2))
        for r in re.finditer(r"\b(\w+)\s*\.\s*modes\s*\[\s*(\d+)\s*\]\s*=\s*([^;]*);", text):
            if r.group(1) in cl:
                cl[r.group(1)]["modes"][int(r.group(2))] = starpu_mode(r.group(3))
        for c in cl.values():
            if c["nbuffers"] is None or sorted(c["modes"]) != list(range(c["nbuffers"])):
                raise TranslateError("%s: codelet %s declares %r buffers but modes %r" % (base, c["name"], c["nbuffers"], sorted(c["modes"])))
            c["modes"] = [c["modes"][i] for i in range(c["nbuffers"])]
            codelets.append(c)
        # submissions
        for m in re.finditer(r"\bstarpu_insert_task\s*\(", text):
            line = text.count("\n", 0, m.start()) + 1
            end = balanced(text, m.end() - 1)
            args = split_top(text[m.end():end])
            fn = None
            for ph in STARPU_PHASES:
                dm = re.search(r"void\s+%s\s*\(\s*TreeClass\s*&\s*inTree[^)]*\)\s*\{" % ph, text)
                b = text.find("{", dm.end() - 1)
                if b < m.start() < matching_brace(text, b):
                    fn = ph
            cm = re.fullmatch(r"&\s*(\w+)", args[0])
            if fn is None or not cm or args[-1] != "0":
                raise TranslateError("%s:%d cannot read the task submission" % (base, line))
            values, handles, i = [], [], 1
            while i < len(args) - 1:
                a = args[i]
                if a == "STARPU_VALUE":
                    vm, sm = re.fullmatch(r"&\s*(\w+)", args[i + 1]), re.fullmatch(r"sizeof\s*\(([^)]*)\)", args[i + 2])
                    if not vm or not sm:
                        raise TranslateError("%s:%d cannot read STARPU_VALUE %s %s" % (base, line, args[i + 1], args[i + 2]))
                    values.append((vm.group(1), classify_value(text, m.start(), vm.group(1)), norm_type(sm.group(1))))
                    i += 3
                elif a in ("STARPU_PRIORITY", "STARPU_NAME"):
                    i += 2
                else:
                    hm = re.fullmatch(r"(\w+)((?:\s*\[[^\]]*\])+)\s*\[\s*(\d+)\s*\]", args[i + 1])
                    if not hm:
                        raise TranslateError("%s:%d cannot read the handle %r" % (base, line, args[i + 1]))
                    handles.append((starpu_mode(a), hm.group(1), "".join(hm.group(2).split()), int(hm.group(3))))
                    i += 2
            tasks.append({"file": base, "line": line, "fn": fn, "codelet": cm.group(1), "handles": handles, "values": values})
    if len(tasks) < 12:
        raise TranslateError("only %d StarPU task submissions recognised" % len(tasks))
    return files, codelets, tasks, layouts, parse_starpu_callbacks()


def parse_footprints():
    """wrapper -> list of (parameter position among the call arguments, buffer kind, 'r'|'w')"""
    text = open(os.path.join(common.REPO, IFACE)).read()
    fps = {}
    for m in re.finditer(r"void\s+(\w+)\s*\(([^)]*)\)\s*const\s*\{", text):
        name = m.group(1)
        params = []
        for p in m.group(2).split(","):
            p = " ".join(p.split())
            pm = re.match(r"(const\s+)?([\w:<>\s]+?)\s*&?\s*(\w+)$", p)
            if not pm:
                raise TranslateError("cannot parse parameter %r of %s" % (p, name))
            params.append((pm.group(3), bool(pm.group(1))))
        b = text.find("{", m.end() - 1)
        body = text[b:matching_brace(text, b)]
        acc = set()
        for pi, (pname, is_const) in enumerate(params):
            for am in re.finditer(r"(TbfUtils::make_const\(\s*%s\s*\)|\b%s)\s*\.\s*(\w+)\s*\(" % (re.escape(pname), re.escape(pname)), body):
                a = am.group(2)
                if a not in ACCESSOR_KIND:
                    continue
                if re.search(r"decltype\s*\(\s*$", body[max(0, am.start() - 40):am.start()]):
                    continue    # unevaluated operand
                kind = ACCESSOR_KIND[a]
                write = (not is_const) and not am.group(1).startswith("TbfUtils::make_const") and a in ("getCellMultipole", "getCellLocal", "getParticleRhs")
                if write:
                    # how is the returned reference bound?  a const binding is a read
                    stmt_start = max(body.rfind(";", 0, am.start()), body.rfind("{", 0, am.start()), body.rfind("}", 0, am.start())) + 1
                    prefix = body[stmt_start:am.start()]
                    eb = re.search(r"(\w+)\s*\.\s*emplace_back\s*\(\s*$", prefix)
                    if eb:
                        decl = re.search(r"std::vector<\s*std::reference_wrapper<\s*(const\s+)?[\w:]+\s*>\s*>\s*%s\s*;" % re.escape(eb.group(1)), body)
                        if decl is None:
                            raise TranslateError("cannot find the declaration of container %s in %s" % (eb.group(1), name))
                        if decl.group(1):
                            write = False
                    elif re.match(r"\s*const\s+auto\s*&", prefix):
                        write = False
                acc.add((pi, kind, "w" if write else "r"))
        # a buffer that is written is not additionally listed as read
        acc = {x for x in acc if not (x[2] == "r" and (x[0], x[1], "w") in acc)}
        fps[name] = sorted(acc)
    for need in ("P2M", "M2M", "M2LInGroup", "M2LBetweenGroups", "L2L", "L2P", "P2PInGroup", "P2PInner", "P2PBetweenGroups", "P2PBetweenGroupsTsm"):
        if need not in fps:
            raise TranslateError("wrapper %s not found" % need)
    return fps


def lean_str(s):
    return '"' + s.replace("\\", "\\\\").replace('"', '\\"') + '"'


def root(alias, g):
    seen = set()
    while g in alias and g not in seen:
        seen.add(g)
        g = alias[g]
    return g


def arg_group(arg):
    a = arg.strip()
    m = re.fullmatch(r"\*\s*(\w+)", a)
    if m:
        return m.group(1)
    m = re.fullmatch(r"(\w+)", a)
    if m:
        return m.group(1)
    return None


def generate():
    tasks = parse_tasks()
    fps = parse_footprints()
    out = ["import Tbfmm.Model.Tasks", "/-! GENERATED by tools/translate_omp.py from /repo/src — do not edit. -/", "namespace Tbfmm.Generated", "open Tbfmm", ""]
    out.append("def wrapperFootprints : List (String × List (Nat × String × Bool)) := [")
    rows = []
    for name, acc in sorted(fps.items()):
        rows.append("  (%s, [%s])" % (lean_str(name), ", ".join("(%d, %s, %s)" % (pi, lean_str(k), "true" if rw == "w" else "false") for pi, k, rw in acc)))
    out.append(",\n".join(rows) + "]")
    out.append("")
    out.append("def ompTasks : List OmpTask := [")
    rows = []
    for t in tasks:
        calls = []
        for name, args in t["calls"]:
            groups = [root(t["alias"], arg_group(a)) if arg_group(a) else "" for a in args]
            calls.append("(%s, [%s])" % (lean_str(name), ", ".join(lean_str(g) for g in groups)))
        rows.append("  { file := %s, line := %d, fn := %s, inLambda := %s, defaultShared := %s,\n    reads := [%s], commutes := [%s],\n    firstprivate := [%s],\n    refs := [%s],\n    calls := [%s] }" % (
            lean_str(t["file"]), t["line"], lean_str(t["fn"]), "true" if t["in_lambda"] else "false", "true" if t["default"] == "shared" else "false",
            ", ".join("(%s, %s)" % (lean_str(root(t["alias"], g)), lean_str(k)) for g, k in t["reads"]),
            ", ".join("(%s, %s)" % (lean_str(root(t["alias"], g)), lean_str(k)) for g, k in t["commutes"]),
            ", ".join(lean_str(x) for x in t["firstprivate"]),
            ", ".join(lean_str(x) for x in t["refs"]),
            ", ".join(calls)))
    out.append(",\n".join(rows) + "]")
    out.append("")
    out.append("def specxTasks : List SpecxTask := [")
    rows = []
    for t in parse_specx_tasks():
        calls = ["(%s, [%s])" % (lean_str(name), ", ".join(lean_str(arg_group(a) or "") for a in args)) for name, args in t["calls"]]
        pairs = lambda l: ", ".join("(%s, %s)" % (lean_str(g), lean_str(k)) for g, k in l)
        strs = lambda l: ", ".join(lean_str(x) for x in l)
        bools = lambda l: ", ".join("true" if x else "false" for x in l)
        rows.append("  { file := %s, line := %d, fn := %s, inLambda := %s,\n    reads := [%s], commutes := [%s], modes := [%s], paramConst := [%s],\n"
                    "    byValue := [%s], byRef := [%s], capturesThis := %s, defaultRef := %s, refDecl := [%s],\n    refs := [%s],\n    calls := [%s] }" % (
                        lean_str(t["file"]), t["line"], lean_str(t["fn"]), "true" if t["in_lambda"] else "false", pairs(t["reads"]), pairs(t["commutes"]),
                        bools(t["modes"]), bools(t["param_const"]), strs(t["by_value"]), strs(t["by_ref"]), "true" if t["this"] else "false",
                        "true" if t["default_ref"] else "false", strs(t["ref_decl"]), strs(t["refs"]), ", ".join(calls)))
    out.append(",\n".join(rows) + "]")
    out.append("")
    sfiles, scodelets, stasks, slayouts, scallbacks = parse_starpu_files()
    b = lambda x: "true" if x else "false"
    out.append("def starpuFiles : List StarpuFile := [")
    out.append(",\n".join("  { file := %s, indexBufferStable := %s, clearedAfterWait := %s }" % (lean_str(f["file"]), b(f["stable"]), b(f["cleared_after_wait"])) for f in sfiles) + "]")
    out.append("")
    out.append("def starpuLayouts : List ((String × String × String) × List String) := [")
    out.append(",\n".join("  ((%s, %s, %s), [%s])" % (lean_str(k[0]), lean_str(k[1]), lean_str(k[2]), ", ".join(lean_str(x) for x in v)) for k, v in slayouts) + "]")
    out.append("")
    out.append("def starpuCodelets : List StarpuCodelet := [")
    out.append(",\n".join("  { file := %s, name := %s, callback := %s, modes := [%s] }" % (lean_str(c["file"]), lean_str(c["name"]), lean_str(c["callback"]), ", ".join(b(x) for x in c["modes"])) for c in scodelets) + "]")
    out.append("")
    out.append("def starpuCallbacks : List StarpuCallback := [")
    out.append(",\n".join("  { name := %s, unpackTypes := [%s],\n    containers := [%s],\n    calls := [%s] }" % (
        lean_str(c["name"]), ", ".join(lean_str(x) for x in c["unpack_types"]),
        ", ".join("(%s, [%s])" % (lean_str(n), ", ".join("(%s, %d)" % (lean_str(k), j) for k, j in sl)) for n, sl in c["containers"]),
        ", ".join("(%s, [%s])" % (lean_str(w), ", ".join(lean_str(a) for a in args)) for w, args in c["calls"])) for c in scallbacks) + "]")
    out.append("")
    out.append("def starpuTasks : List StarpuTask := [")
    out.append(",\n".join("  { file := %s, line := %d, fn := %s, codelet := %s,\n    handles := [%s],\n    values := [%s] }" % (
        lean_str(t["file"]), t["line"], lean_str(t["fn"]), lean_str(t["codelet"]),
        ", ".join("(%s, %s, %s, %d)" % (b(w), lean_str(a), lean_str(i), k) for w, a, i, k in t["handles"]),
        ", ".join("(%s, %s, %s)" % (lean_str(v), lean_str(c), lean_str(ty)) for v, c, ty in t["values"])) for t in stasks) + "]")
    out.append("")
    out.append("end Tbfmm.Generated")
    return "\n".join(out) + "\n", tasks, fps


def main():
    text, tasks, fps = generate()
    path = os.path.join(common.LEAN, "Tbfmm", "Generated", "OmpTasks.lean")
    old = open(path).read() if os.path.exists(path) else None
    if old != text:
        with open(path, "w") as f:
            f.write(text)
    return tasks, fps


if __name__ == "__main__":
    tasks, fps = main()
    for t in tasks:
        print(t["file"], t["line"], t["fn"], "lambda" if t["in_lambda"] else "", t["reads"], t["commutes"], t["firstprivate"], t["refs"], [c[0] for c in t["calls"]])
    for k, v in fps.items():
        print(k, v)
