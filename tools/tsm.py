"""Target/source (Tsm) cases: harness specs, generators, runner."""
import collections

import common
import core
import gen


def harness_spec(D, periodic, omp=True, wide=False, starpu=False):
    name = "h_tsm_%d_%d%s%s%s" % (D, periodic, "_omp" if omp else "", "_w64" if wide else "", "_starpu" if starpu else "")
    flags = ["-DDIM=%d" % D, "-DPERIODIC=%d" % periodic] + (["-DSLOTBITS=64"] if wide else [])
    srcs = ["h_tsm.cpp"]
    if omp:
        flags += ["-DUSE_OMP", "-fopenmp"]
        srcs.append("mock_gomp.cpp")
    if starpu:
        import os
        flags += ["-DUSE_STARPU", "-I" + os.path.join(common.VERIF, "harness", "mock_starpu"),
                  "-DUSE_SPECX", "-I" + os.path.join(common.VERIF, "harness", "mock_specx")]
        srcs.append("mock_starpu.cpp")
    return {"name": name, "sources": srcs, "flags": flags}


def build(configs, omp=True, wide=False, starpu=False):
    specs = {c: harness_spec(c[0], c[1], omp, wide, starpu) for c in sorted(set(configs))}
    res = common.build_many(list(specs.values()))
    ok, bad = {}, {}
    for c, s in specs.items():
        path, log = res[s["name"]]
        if path:
            ok[c] = path
        else:
            bad[c] = log
    return ok, bad


def gen_sets(r, D, H, max_n=48):
    """(sources, targets) as lists of integer cell coordinates"""
    lim = 1 << (H - 1)
    kind = r.choice(["independent", "disjoint", "identical", "src_single_leaf", "tgt_single_leaf", "single_src", "single_tgt", "overlap", "adjacent"])
    n = r.choice([1, 2, 3, 5, 8, 13, 21, 34, max_n])

    def some(k):
        return gen.gen_particles(r, D, H, r.choice(gen.KINDS), k)
    if kind == "independent":
        return kind, some(n), some(r.choice([1, 2, 5, 13, n]))
    if kind == "disjoint":
        half = max(1, lim // 2)
        s = [tuple(min(c[0], half - 1) if d == 0 else c[d] for d in range(D)) for c in some(n)]
        t = [tuple(max(c[0], lim - half) if d == 0 else c[d] for d in range(D)) for c in some(n)]
        return kind, s, t
    if kind == "identical":
        s = some(n)
        return kind, s, list(s)
    if kind == "src_single_leaf":
        c = tuple(r.randrange(lim) for _ in range(D))
        return kind, [c] * r.choice([1, 3, 9]), some(n)
    if kind == "tgt_single_leaf":
        c = tuple(r.randrange(lim) for _ in range(D))
        return kind, some(n), [c] * r.choice([1, 3, 9])
    if kind == "single_src":
        return kind, some(1), some(n)
    if kind == "single_tgt":
        return kind, some(n), some(1)
    if kind == "overlap":
        s = some(n)
        t = s[: max(1, len(s) // 2)] + some(max(1, n // 2))
        return kind, s, t
    s = some(n)
    t = [tuple(min(lim - 1, max(0, x + r.randint(-1, 1))) for x in c) for c in s]
    return kind, s, t


def make_case(name, D, H, periodic, src, tgt, bs, mode, body, meta=None):
    flatS = " ".join(str(x) for c in src for x in c)
    flatT = " ".join(str(x) for c in tgt for x in c)
    lines = ["case " + name, "tree D=%d H=%d periodic=%d" % (D, H, periodic), "partsS %d %s" % (len(src), flatS), "partsT %d %s" % (len(tgt), flatT),
             "buildtsm bs=%d mode=%d" % (bs, mode)] + body + ["end"]
    m = {"bs": bs, "mode": mode}
    m.update(meta or {})
    return {"name": name, "D": D, "H": H, "periodic": periodic, "parts": tgt, "src": src, "tgt": tgt, "bs": bs, "mode": mode, "lines": lines, "meta": m}


def shape(D, H, parts):
    sh = collections.defaultdict(list)
    for p, co in enumerate(parts):
        sh[gen.encode(D, H - 1, co)].append(p)
    return sh


def parse_replay(path):
    lines = [ln.rstrip("\n") for ln in open(path) if ln.strip() and not ln.startswith("#")]
    hdr = {}
    for ln in lines:
        t = ln.split()
        if t[0] == "tree":
            for kvp in t[1:]:
                k, v = kvp.split("=")
                hdr[k] = int(v)
        if t[0] in ("partsS", "partsT"):
            n, D = int(t[1]), hdr["D"]
            vals = [int(x) for x in t[2:]]
            hdr[t[0]] = [tuple(vals[i * D:(i + 1) * D]) for i in range(n)]
        if t[0] == "buildtsm":
            for kvp in t[1:]:
                k, v = kvp.split("=")
                if v.lstrip("-").isdigit():
                    hdr.setdefault(k, int(v))
    name = [ln for ln in lines if ln.startswith("case ")][0][5:].strip()
    meta = {"replay": True}
    for ln in lines:
        if ln.startswith("exec tsm") or ln.startswith("exec omptsm"):
            for kvp in ln.split()[2:]:
                k, v = kvp.split("=")
                if k == "upper":
                    meta["upper"] = int(v)
    meta.setdefault("upper", 2)
    meta["scheds"] = []
    return {"name": name, "D": hdr["D"], "H": hdr["H"], "periodic": hdr.get("periodic", 0), "parts": hdr.get("partsT", []), "src": hdr.get("partsS", []), "tgt": hdr.get("partsT", []),
            "bs": hdr.get("bs", 1), "mode": hdr.get("mode", 0), "lines": lines, "meta": meta}
