#!/usr/bin/env python3
"""Writes MANIFEST.json from tools/manifest_src.py (one place to edit claims)."""
import json, os, sys
sys.path.insert(0, os.path.dirname(os.path.abspath(__file__)))
import manifest_src as m
root = os.path.dirname(os.path.dirname(os.path.abspath(__file__)))
checks = []
for pid, c in sorted(m.CHECKS.items()):
    checks.append({
        "property_id": pid,
        "quick_cmd": "python3 tools/check.py %s --tier quick" % pid,
        "thorough_cmd": "python3 tools/check.py %s --tier thorough" % pid,
        "evidence_file": "evidence/%s.json" % pid,
        "replay_cmd_template": "python3 tools/check.py %s --replay {path}" % pid,
        "engine": c.get("engine", "lean4-proof+differential-correspondence"),
        "level_claimed": {"category": c["category"], "text": c["text"], "design_ref": c["design_ref"]},
        "level_note": c["note"],
        "technique": c["technique"],
    })
claimed = set(m.CHECKS)
na = [{"property_id": p, "reason": r} for p, r in sorted(m.NOT_APPLICABLE.items()) if p not in claimed]
man = {"version": 1, "setup_cmd": "python3 tools/setup.py", "hooks": m.HOOKS, "engines": m.ENGINES, "checks": checks,
       "notes": m.NOTES, "not_applicable": na}
json.dump(man, open(os.path.join(root, "MANIFEST.json"), "w"), indent=1)
print("wrote MANIFEST.json with", len(checks), "checks;", len(na), "not claimed")
